(** * Sim: the composed python simulator

    Models gradysim/simulator/handler/{timer,communication,mobility,assertion}.py,
    gradysim/encapsulator/python.py (provider forwarding), SimulationBuilder / create_node
    (node ids 0,1,2,... in the order added) and extension/communication_controller.py, as
    the four hooks of [Kernel].  Python closures become data: an event payload carries
    exactly the values the lambda captured.  A protocol is an arbitrary function [react]
    from its private state, the time its provider reports and the callback to a new state
    and the ordered list of requests it issues in that callback. *)
From Coq Require Import List Arith NArith Bool.
Import ListNotations.
From GS Require Import Num EventLoop Kernel Geo.

Section Sim.
Context {F : Type} (A : ArithOps F) {PS : Type}.

Inductive cb : Type :=
| CbInit
| CbTimer (name : nat)
| CbPacket (msg : nat)
| CbTelemetry (pos : vec3 F)
| CbFinish.

Inductive action : Type :=
| ASetTimer (name : nat) (ts : F)         (* provider.schedule_timer(name, ts) *)
| ACancel (name : nat)                    (* provider.cancel_timer(name) *)
| ASend (msg : nat) (dst : option nat)    (* SendMessageCommand(msg, dst) *)
| ABroadcast (msg : nat)                  (* BroadcastMessageCommand(msg) *)
| ABcastDst (msg dst : nat)               (* CommunicationCommand(BROADCAST, msg, destination=dst): the
                                             destination is ignored, except that naming oneself raises *)
| AGoto (p : vec3 F)                      (* GotoCoordsMobilityCommand *)
| AGotoGeo (p : vec3 F)                   (* GotoGeoCoordsMobilityCommand *)
| ASetSpeed (s : F)                       (* SetSpeedMobilityCommand *)
| ASetRange (r : F)                       (* CommunicationController.set_transmission_range *)
| ASetFlag (b : bool).                    (* protocol attribute read by assertion predicates *)

Inductive outcome : Type := Ok | ErrTimer | ErrComm | ErrValue.

Inductive payload : Type :=
| EvTimer (node name : nat) (id : N)            (* lambda: self.fire_timer(message, node, identifier) *)
| EvDeliver (src dst msg : nat)           (* lambda: destination.receive_message(message, source) *)
| EvTick                                  (* self._update_movement *)
| EvTelemetry (node : nat) (pos : vec3 F). (* make_send_telemetry(node, telemetry) *)

Inductive hkind : Type := HTimer | HComm | HMob | HRec (j : nat) | HAssert.

Inductive quant : Type := QAll | QAny.
Inductive assertion : Type :=
| AAlwaysProto (ty : nat)
| AEventuallyProto (ty : nat)
| AAlwaysSim (q : quant)
| AEventuallySim (q : quant).
Inductive astate : Type :=
| ASNone
| ASProto (seen : list (nat * bool))      (* has_been_true, insertion order *)
| ASSim (b : bool).

Inductive titem : Type :=
| TCb (node : nat) (now : F) (c : cb)
| TAct (node : nat) (a : action) (o : outcome)
| THInit (j : nat)
| THAfter (j iter : nat) (ts : F)
| THFinal (j : nat)
| TAssertFail (idx : nat).

Record scfg : Type := mkSCfg {
  c_handlers : list hkind;        (* in add_handler order *)
  c_nnodes : nat;
  c_pos0 : list (vec3 F);
  c_types : list nat;             (* protocol class per node: 0 = A, 1 = B, 2 = subclass of A *)
  c_range : F;
  c_delay : F;
  c_fail : F;
  c_rate : F;
  c_speed : F;
  c_ref : vec3 F;
  c_asserts : list assertion;
  c_stream : list F               (* successive outputs of random.random() *)
}.

Record sstate : Type := mkS {
  s_pending : list (nat * nat * N);   (* (node, name, id) *)
  s_nextid : N;
  s_pos : list (vec3 F);
  s_tgt : list (option (vec3 F));
  s_speed : list F;
  s_range : list F;
  s_ps : list PS;
  s_flag : list bool;
  s_cursor : nat;
  s_astate : list astate
}.

Variable cfg : scfg.
Variable react : nat -> PS -> F -> cb -> PS * list action.

Definition is_kind (k : hkind) (x : hkind) : bool :=
  match k, x with
  | HTimer, HTimer | HComm, HComm | HMob, HMob | HAssert, HAssert => true
  | _, _ => false
  end.
Definition has_timer : bool := existsb (is_kind HTimer) (c_handlers cfg).
Definition has_comm : bool := existsb (is_kind HComm) (c_handlers cfg).
Definition has_mob : bool := existsb (is_kind HMob) (c_handlers cfg).

Fixpoint upd {X : Type} (n : nat) (x : X) (l : list X) : list X :=
  match l, n with
  | [], _ => []
  | _ :: r, 0 => x :: r
  | y :: r, S m => y :: upd m x r
  end.

Definition zero3 : vec3 F := (f0 A, f0 A, f0 A).

(* -- setters ------------------------------------------------------------------------- *)
Definition set_pending h v := mkS v (s_nextid h) (s_pos h) (s_tgt h) (s_speed h) (s_range h) (s_ps h) (s_flag h) (s_cursor h) (s_astate h).
Definition set_nextid h v := mkS (s_pending h) v (s_pos h) (s_tgt h) (s_speed h) (s_range h) (s_ps h) (s_flag h) (s_cursor h) (s_astate h).
Definition set_pos h v := mkS (s_pending h) (s_nextid h) v (s_tgt h) (s_speed h) (s_range h) (s_ps h) (s_flag h) (s_cursor h) (s_astate h).
Definition set_tgt h v := mkS (s_pending h) (s_nextid h) (s_pos h) v (s_speed h) (s_range h) (s_ps h) (s_flag h) (s_cursor h) (s_astate h).
Definition set_speed h v := mkS (s_pending h) (s_nextid h) (s_pos h) (s_tgt h) v (s_range h) (s_ps h) (s_flag h) (s_cursor h) (s_astate h).
Definition set_range h v := mkS (s_pending h) (s_nextid h) (s_pos h) (s_tgt h) (s_speed h) v (s_ps h) (s_flag h) (s_cursor h) (s_astate h).
Definition set_ps h v := mkS (s_pending h) (s_nextid h) (s_pos h) (s_tgt h) (s_speed h) (s_range h) v (s_flag h) (s_cursor h) (s_astate h).
Definition set_flag h v := mkS (s_pending h) (s_nextid h) (s_pos h) (s_tgt h) (s_speed h) (s_range h) (s_ps h) v (s_cursor h) (s_astate h).
Definition set_cursor h v := mkS (s_pending h) (s_nextid h) (s_pos h) (s_tgt h) (s_speed h) (s_range h) (s_ps h) (s_flag h) v (s_astate h).
Definition set_astate h v := mkS (s_pending h) (s_nextid h) (s_pos h) (s_tgt h) (s_speed h) (s_range h) (s_ps h) (s_flag h) (s_cursor h) v.

(* -- timer handler -------------------------------------------------------------------- *)
Definition pend_is (n name : nat) (e : nat * nat * N) : bool :=
  let '(n', nm, _) := e in Nat.eqb n' n && Nat.eqb nm name.
Definition pend_id (n name : nat) (id : N) (e : nat * nat * N) : bool :=
  let '(n', nm, i) := e in Nat.eqb n' n && Nat.eqb nm name && N.eqb i id.

(* -- communication handler -------------------------------------------------------------- *)
Definition pos_of (h : sstate) (n : nat) : vec3 F := nth n (s_pos h) zero3.

(** can_transmit + _transmit_message: the draw (when failure_rate > 0) is made for every
    copy, in or out of range. *)
Definition transmit (h : sstate) (now : F) (src dst msg : nat) : sstate * list (F * payload) :=
  let sq := sqdist A (pos_of h src) (pos_of h dst) in
  let in_range := fleb A sq (fsq A (nth src (s_range h) (f0 A))) in
  let '(rng, h1) :=
    if fltb A (f0 A) (c_fail cfg)
    then (fltb A (c_fail cfg) (nth (s_cursor h) (c_stream cfg) (f0 A)), set_cursor h (S (s_cursor h)))
    else (true, h) in
  if rng && in_range
  then (h1, [(if fleb A (c_delay cfg) (f0 A) then now else fadd A now (c_delay cfg), EvDeliver src dst msg)])
  else (h1, []).

Fixpoint broadcast (h : sstate) (now : F) (src msg : nat) (dsts : list nat) : sstate * list (F * payload) :=
  match dsts with
  | [] => (h, [])
  | d :: r =>
      if Nat.eqb d src then broadcast h now src msg r
      else
        let '(h1, q1) := transmit h now src d msg in
        let '(h2, q2) := broadcast h1 now src msg r in
        (h2, q1 ++ q2)
  end.

(* -- mobility handler -------------------------------------------------------------------- *)
Definition move (cur tgt : vec3 F) (speed : F) : vec3 F :=
  let t0 := fsub A (vx tgt) (vx cur) in
  let t1 := fsub A (vy tgt) (vy cur) in
  let t2 := fsub A (vz tgt) (vz cur) in
  let mm := fmul A speed (c_rate cfg) in
  let dd := fsqrt A (fadd A (fadd A (fsq A t0) (fsq A t1)) (fsq A t2)) in
  if fleb A dd mm then tgt
  else
    let m := fdiv A mm dd in
    (fadd A (vx cur) (fmul A t0 m), fadd A (vy cur) (fmul A t1 m), fadd A (vz cur) (fmul A t2 m)).

Fixpoint tick_nodes (h : sstate) (now : F) (ns : list nat) : sstate * list (F * payload) :=
  match ns with
  | [] => (h, [])
  | n :: r =>
      let p := match nth n (s_tgt h) None with
               | Some t => move (pos_of h n) t (nth n (s_speed h) (f0 A))
               | None => pos_of h n
               end in
      let h1 := set_pos h (upd n p (s_pos h)) in
      let '(h2, q) := tick_nodes h1 now r in
      (h2, (now, EvTelemetry n p) :: q)
  end.

Definition tick (h : sstate) (now : F) : sstate * list (F * payload) :=
  let '(h1, q) := tick_nodes h now (seq 0 (c_nnodes cfg)) in
  (h1, q ++ [(fadd A now (c_rate cfg), EvTick)]).

(* -- provider: one request of node [n] at event-loop time [now] ----------------------------- *)
Definition do_action (h : sstate) (now : F) (n : nat) (a : action) : sstate * list (F * payload) * outcome :=
  match a with
  | ASetTimer name ts =>
      if negb has_timer then (h, [], Ok)
      else if fltb A ts now then (h, [], ErrTimer)
      else
        let id := s_nextid h in
        (set_nextid (set_pending h (s_pending h ++ [(n, name, id)])) (N.succ id),
         [(ts, EvTimer n name id)], Ok)
  | ACancel name =>
      if negb has_timer then (h, [], Ok)
      else (set_pending h (filter (fun e => negb (pend_is n name e)) (s_pending h)), [], Ok)
  | ASend msg dst =>
      if negb has_comm then (h, [], Ok)
      else match dst with
           | Some d =>
               if Nat.eqb d n then (h, [], ErrComm)
               else if Nat.ltb d (c_nnodes cfg)
                    then let '(h1, q) := transmit h now n d msg in (h1, q, Ok)
                    else (h, [], ErrComm)
           | None => (h, [], ErrComm)
           end
  | ABroadcast msg =>
      if negb has_comm then (h, [], Ok)
      else let '(h1, q) := broadcast h now n msg (seq 0 (c_nnodes cfg)) in (h1, q, Ok)
  | ABcastDst msg d =>
      if negb has_comm then (h, [], Ok)
      else if Nat.eqb d n then (h, [], ErrComm)
      else let '(h1, q) := broadcast h now n msg (seq 0 (c_nnodes cfg)) in (h1, q, Ok)
  | AGoto p =>
      if negb has_mob then (h, [], Ok)
      else (set_tgt h (upd n (Some p) (s_tgt h)), [], Ok)
  | AGotoGeo p =>
      if negb has_mob then (h, [], Ok)
      else (set_tgt h (upd n (Some (geo_to_cartesian A (c_ref cfg) p)) (s_tgt h)), [], Ok)
  | ASetSpeed s =>
      if negb has_mob then (h, [], Ok)
      else (set_speed h (upd n s (s_speed h)), [], Ok)
  | ASetRange r =>
      if fltb A r (f0 A) then (h, [], ErrValue)
      else if negb has_comm then (h, [], Ok)
      else (set_range h (upd n r (s_range h)), [], Ok)
  | ASetFlag b => (set_flag h (upd n b (s_flag h)), [], Ok)
  end.

Fixpoint do_actions (h : sstate) (now : F) (n : nat) (acts : list action)
  : sstate * list (F * payload) * list titem :=
  match acts with
  | [] => (h, [], [])
  | a :: r =>
      let '(h1, q1, o) := do_action h now n a in
      let '(h2, q2, t2) := do_actions h1 now n r in
      (h2, q1 ++ q2, TAct n a o :: t2)
  end.

(** One protocol callback on node [n]; [now] is the event loop's clock.  The time the
    protocol sees is provider.current_time(): the clock when a timer handler exists, else 0. *)
Definition callback (h : sstate) (now : F) (n : nat) (c : cb) : sstate * list (F * payload) * list titem :=
  match nth_error (s_ps h) n with
  | None => (h, [], [])
  | Some ps =>
      let pnow := if has_timer then now else f0 A in
      let '(ps1, acts) := react n ps pnow c in
      let h1 := set_ps h (upd n ps1 (s_ps h)) in
      let '(h2, q, t) := do_actions h1 now n acts in
      (h2, q, TCb n pnow c :: t)
  end.

Fixpoint callbacks (h : sstate) (now : F) (ns : list nat) (c : cb) : sstate * list (F * payload) * list titem :=
  match ns with
  | [] => (h, [], [])
  | n :: r =>
      let '(h1, q1, t1) := callback h now n c in
      let '(h2, q2, t2) := callbacks h1 now r c in
      (h2, q1 ++ q2, t1 ++ t2)
  end.

(* -- assertion handler ----------------------------------------------------------------- *)
Definition is_inst (node_ty assert_ty : nat) : bool :=
  Nat.eqb node_ty assert_ty || (Nat.eqb node_ty 2 && Nat.eqb assert_ty 0).
Definition inst_nodes (ty : nat) : list nat :=
  filter (fun n => is_inst (nth n (c_types cfg) 0) ty) (seq 0 (c_nnodes cfg)).
Definition flag_of (h : sstate) (n : nat) : bool := nth n (s_flag h) false.
Definition qpred (h : sstate) (q : quant) : bool :=
  match q with
  | QAll => forallb (flag_of h) (seq 0 (c_nnodes cfg))
  | QAny => existsb (flag_of h) (seq 0 (c_nnodes cfg))
  end.

Fixpoint seen_setdefault (n : nat) (l : list (nat * bool)) : list (nat * bool) :=
  match l with
  | [] => [(n, false)]
  | (m, b) :: r => if Nat.eqb m n then l else (m, b) :: seen_setdefault n r
  end.
Fixpoint seen_set (n : nat) (l : list (nat * bool)) : list (nat * bool) :=
  match l with
  | [] => [(n, true)]
  | (m, b) :: r => if Nat.eqb m n then (m, true) :: r else (m, b) :: seen_set n r
  end.

Definition assert_init (a : assertion) : astate :=
  match a with
  | AEventuallyProto ty => ASProto (fold_left (fun l n => seen_setdefault n l) (inst_nodes ty) [])
  | AEventuallySim _ => ASSim false
  | _ => ASNone
  end.

(** test_iteration: new state, and whether FailedAssertionException is raised. *)
Definition assert_iter (h : sstate) (a : assertion) (st : astate) : astate * bool :=
  match a with
  | AAlwaysProto ty => (st, negb (forallb (flag_of h) (inst_nodes ty)))
  | AEventuallyProto ty =>
      let seen := match st with ASProto l => l | _ => [] end in
      (ASProto (fold_left (fun l n => let l1 := seen_setdefault n l in
                                      if flag_of h n then seen_set n l1 else l1)
                          (inst_nodes ty) seen), false)
  | AAlwaysSim q => (st, negb (qpred h q))
  | AEventuallySim q =>
      (if qpred h q then ASSim true else st, false)
  end.

(** finalize: whether FailedAssertionException is raised. *)
Definition assert_final (a : assertion) (st : astate) : bool :=
  match a, st with
  | AEventuallyProto _, ASProto l => negb (forallb snd l)
  | AEventuallySim _, ASSim b => negb b
  | AEventuallySim _, _ => true
  | _, _ => false
  end.

Fixpoint asserts_iter (h : sstate) (idx : nat) (asl : list assertion) (sts : list astate)
  : list astate * option nat :=
  match asl, sts with
  | a :: ar, st :: sr =>
      let '(st1, raised) := assert_iter h a st in
      if raised then (st1 :: sr, Some idx)
      else let '(sr1, res) := asserts_iter h (S idx) ar sr in (st1 :: sr1, res)
  | _, _ => (sts, None)
  end.

Fixpoint asserts_final (idx : nat) (asl : list assertion) (sts : list astate) : option nat :=
  match asl, sts with
  | a :: ar, st :: sr => if assert_final a st then Some idx else asserts_final (S idx) ar sr
  | _, _ => None
  end.

(* -- the four hooks --------------------------------------------------------------------- *)
Fixpoint handlers_init (h : sstate) (hs : list hkind) : sstate * list titem :=
  match hs with
  | [] => (h, [])
  | HRec j :: r => let '(h1, t) := handlers_init h r in (h1, THInit j :: t)
  | HAssert :: r => handlers_init (set_astate h (map assert_init (c_asserts cfg))) r
  | _ :: r => handlers_init h r
  end.

Definition nodes : list nat := seq 0 (c_nnodes cfg).

Definition sim_init (h : sstate) : sstate * list (F * payload) * list titem :=
  let '(h1, t1) := handlers_init h (c_handlers cfg) in
  let '(h2, q, t2) := callbacks h1 (f0 A) nodes CbInit in
  (h2, q, t1 ++ t2).

Definition sim_exec (h : sstate) (now : F) (p : payload) : sstate * list (F * payload) * list titem :=
  match p with
  | EvTimer n name id =>
      if existsb (pend_id n name id) (s_pending h)
      then callback (set_pending h (filter (fun e => negb (pend_id n name id e)) (s_pending h))) now n (CbTimer name)
      else (h, [], [])
  | EvDeliver _ dst msg => callback h now dst (CbPacket msg)
  | EvTick => let '(h1, q) := tick h now in (h1, q, [])
  | EvTelemetry n pos => callback h now n (CbTelemetry pos)
  end.

Fixpoint handlers_after (h : sstate) (iter : nat) (ts : F) (hs : list hkind) : sstate * list titem * bool :=
  match hs with
  | [] => (h, [], false)
  | HRec j :: r =>
      let '(h1, t, raised) := handlers_after h iter ts r in (h1, THAfter j iter ts :: t, raised)
  | HAssert :: r =>
      let '(sts, res) := asserts_iter h 0 (c_asserts cfg) (s_astate h) in
      let h1 := set_astate h sts in
      match res with
      | Some idx => (h1, [TAssertFail idx], true)
      | None => handlers_after h1 iter ts r
      end
  | _ :: r => handlers_after h iter ts r
  end.

Definition sim_after (h : sstate) (iter : nat) (ts : F) : sstate * list titem * bool :=
  handlers_after h iter ts (c_handlers cfg).

Fixpoint handlers_final (h : sstate) (hs : list hkind) : list titem * bool :=
  match hs with
  | [] => ([], false)
  | HRec j :: r => let '(t, raised) := handlers_final h r in (THFinal j :: t, raised)
  | HAssert :: r =>
      match asserts_final 0 (c_asserts cfg) (s_astate h) with
      | Some idx => ([TAssertFail idx], true)
      | None => handlers_final h r
      end
  | _ :: r => handlers_final h r
  end.

Definition sim_finish (h : sstate) (now : F) : sstate * list (F * payload) * list titem * bool :=
  let '(h1, q, t1) := callbacks h now nodes CbFinish in
  let '(t2, raised) := handlers_final h1 (c_handlers cfg) in
  (h1, q, t1 ++ t2, raised).

Definition sim_hooks : hooks F payload sstate titem :=
  mkHooks sim_init sim_exec sim_after sim_finish.

(** State after SimulationBuilder.build(): handlers injected, nodes created and registered. *)
Definition sim_state0 (ps0 : nat -> PS) : sstate :=
  mkS [] 0%N (c_pos0 cfg) (map (fun _ => None) nodes) (map (fun _ => c_speed cfg) nodes)
      (map (fun _ => c_range cfg) nodes) (map ps0 nodes) (map (fun _ => false) nodes) 0
      (map (fun _ => ASNone) (c_asserts cfg)).

Definition sim_reqs0 : list (F * payload) :=
  if has_mob then [(fadd A (f0 A) (c_rate cfg), EvTick)] else [].

Definition sim_start (ps0 : nat -> PS) : kstate F payload sstate * list (kitem F payload titem) :=
  k_start A (sim_state0 ps0) sim_reqs0.

(** Requests made from OUTSIDE any callback -- driver code calling a node's provider before the
    first step or between two steps: they reach the handlers at the event loop's current clock. *)
Definition sim_external (s : kstate F payload sstate) (n : nat) (acts : list action)
  : kstate F payload sstate * list (kitem F payload titem) :=
  let '(h1, q, t) := do_actions (k_h s) (el_now (k_el s)) n acts in
  let '(l1, ref) := sched_all A (k_el s) q in
  (mkK l1 h1 (k_iter s) (k_inited s) (k_final s) (k_aborted s), map (@KUser F payload titem) t ++ ref).

(** Manual driving: any interleaving of step_simulation() calls and external requests. *)
Inductive drv_op : Type := DStep | DExt (n : nat) (acts : list action).

Definition sim_drive1 (c : kcfg F) (s : kstate F payload sstate) (o : drv_op)
  : kstate F payload sstate * list (kitem F payload titem) * option bool :=
  match o with
  | DStep => let '(s1, it, r) := k_step A sim_hooks c s in (s1, it, Some r)
  | DExt n acts => let '(s1, it) := sim_external s n acts in (s1, it, None)
  end.

Fixpoint sim_drive (c : kcfg F) (ops : list drv_op) (s : kstate F payload sstate)
  : kstate F payload sstate * list (kitem F payload titem) :=
  match ops with
  | [] => (s, [])
  | o :: r =>
      let '(s1, it, _) := sim_drive1 c s o in
      let '(s2, its) := sim_drive c r s1 in
      (s2, it ++ its)
  end.

End Sim.

Arguments cb : clear implicits.
Arguments action : clear implicits.
Arguments payload : clear implicits.
Arguments titem : clear implicits.
Arguments scfg : clear implicits.
Arguments sstate : clear implicits.
Arguments drv_op : clear implicits.
