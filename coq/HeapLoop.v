(** * HeapLoop: the event loop of gradysim/simulator/event.py with its queue kept the way the
    code keeps it -- an array handled by [heapq.heappush] / [heapq.heappop], [peek] reading cell 0 --
    using the transcription of CPython's heapq in [Heap.v].  [Proofs/HeapLoopP.v] shows that on
    every history of API calls it answers exactly as the list-and-selection model [EventLoop.v],
    about which the theorems of C01-C04 are proved. *)
From Coq Require Import List Arith NArith Bool.
Import ListNotations.
From GS Require Import Num EventLoop Heap.

Section HeapLoop.
Context {F : Type} (A : ArithOps F) {P : Type}.
Notation event := (event F P).

Record hloop : Type := mkHL { hl_h : list event; hl_now : F; hl_seq : N }.

Definition hl_init : hloop := mkHL [] (f0 A) 0%N.

Definition hl_schedule (l : hloop) (ts : F) (p : P) : option hloop :=
  if fltb A ts (hl_now l) then None
  else Some (mkHL (heappush (ev_lt A) (hl_h l) (mkEv ts (hl_seq l) p)) (hl_now l) (N.succ (hl_seq l))).

Definition hl_peek (l : hloop) : option event := nth_error (hl_h l) 0.

Definition hl_pop (l : hloop) : option (event * hloop) :=
  match heappop (ev_lt A) (hl_h l) with
  | None => None
  | Some (m, h') => Some (m, mkHL h' (ev_ts m) (hl_seq l))
  end.

Definition hl_step (l : hloop) (o : el_op F P) : hloop * el_res F P :=
  match o with
  | OpSchedule ts p =>
      match hl_schedule l ts p with
      | Some l' => (l', RScheduled)
      | None => (l, RRefused)
      end
  | OpPop =>
      match hl_pop l with
      | Some (e, l') => (l', RPopped (ev_ts e) (ev_pl e))
      | None => (l, RRefused)
      end
  | OpPeek =>
      (l, RPeeked (match hl_peek l with Some e => Some (ev_ts e, ev_pl e) | None => None end))
  | OpClear => (mkHL [] (hl_now l) (hl_seq l), RCleared)
  | OpLen => (l, RLen (length (hl_h l)))
  | OpNow => (l, RNow (hl_now l))
  end.

Fixpoint hl_run (l : hloop) (ops : list (el_op F P)) : hloop * list (el_res F P) :=
  match ops with
  | [] => (l, [])
  | o :: r =>
      let '(l1, x) := hl_step l o in
      let '(l2, xs) := hl_run l1 r in
      (l2, x :: xs)
  end.

End HeapLoop.
