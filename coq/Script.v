(** * Script: a finite rule language for protocols

    Theorems quantify over every [react]; the correspondence check can only run finitely
    described ones.  A script gives each node a list of rules "on <kind of callback>
    [named x] [at its k-th occurrence] do <requests>"; its state counts the callbacks of
    each kind the node has seen.  harness/scripted.py interprets the same scripts. *)
From Coq Require Import List Arith Bool.
Import ListNotations.
From GS Require Import Num Sim.

Section Script.
Context {F : Type} (A : ArithOps F).

Inductive trigger : Type :=
| OnInit
| OnTimer (name : option nat)
| OnPacket (msg : option nat)
| OnTelemetry
| OnFinish.

Inductive tspec : Type := TAbs (t : F) | TRel (d : F).   (* absolute, or current_time() + d *)

Inductive sact : Type :=
| SSetTimer (name : nat) (t : tspec)
| SGotoHere                      (* in a telemetry callback: goto the reported position; else nothing *)
| SAct (a : action F).

Record rule : Type := mkRule { r_trig : trigger; r_nth : option nat; r_acts : list sact }.

(** callbacks seen so far: init, timer, packet, telemetry, finish *)
Definition counters : Type := (nat * nat * nat * nat * nat)%type.
Definition counters0 : counters := (0, 0, 0, 0, 0).

Definition kind_count (ps : counters) (c : cb F) : nat :=
  let '(a, b, c0, d, e) := ps in
  match c with CbInit => a | CbTimer _ => b | CbPacket _ => c0 | CbTelemetry _ => d | CbFinish => e end.

Definition kind_incr (ps : counters) (c : cb F) : counters :=
  let '(a, b, c0, d, e) := ps in
  match c with
  | CbInit => (S a, b, c0, d, e)
  | CbTimer _ => (a, S b, c0, d, e)
  | CbPacket _ => (a, b, S c0, d, e)
  | CbTelemetry _ => (a, b, c0, S d, e)
  | CbFinish => (a, b, c0, d, S e)
  end.

Definition opt_match (o : option nat) (x : nat) : bool :=
  match o with None => true | Some y => Nat.eqb x y end.

Definition trig_match (t : trigger) (c : cb F) : bool :=
  match t, c with
  | OnInit, CbInit => true
  | OnTimer o, CbTimer n => opt_match o n
  | OnPacket o, CbPacket m => opt_match o m
  | OnTelemetry, CbTelemetry _ => true
  | OnFinish, CbFinish => true
  | _, _ => false
  end.

Definition rule_fires (r : rule) (k : nat) (c : cb F) : bool :=
  trig_match (r_trig r) c && opt_match (r_nth r) k.

Definition resolve (now : F) (c : cb F) (s : sact) : list (action F) :=
  match s with
  | SSetTimer name (TAbs t) => [ASetTimer name t]
  | SSetTimer name (TRel d) => [ASetTimer name (fadd A now d)]
  | SGotoHere => match c with CbTelemetry pos => [AGoto pos] | _ => [] end
  | SAct a => [a]
  end.

Definition script_react (script : list (list rule)) (n : nat) (ps : counters) (now : F) (c : cb F)
  : counters * list (action F) :=
  let k := kind_count ps c in
  let rules := nth n script [] in
  (kind_incr ps c,
   flat_map (fun r => if rule_fires r k c then flat_map (resolve now c) (r_acts r) else []) rules).

End Script.
