(** * Geo: model of [_haversine_distance] and [geo_to_cartesian] (gradysim/protocol/position.py) *)
From GS Require Import Num.

Section Geo.
Context {F : Type} (A : ArithOps F).

Definition haversine (lat1d lon1d lat2d lon2d : F) : F :=
  let lat1 := frad A lat1d in let lon1 := frad A lon1d in
  let lat2 := frad A lat2d in let lon2 := frad A lon2d in
  let dlat := fsub A lat2 lat1 in
  let dlon := fsub A lon2 lon1 in
  let a := fadd A (fsq A (fsin A (fdiv A dlat (f2 A))))
                  (fmul A (fmul A (fcos A lat1) (fcos A lat2)) (fsq A (fsin A (fdiv A dlon (f2 A))))) in
  let c := fmul A (f2 A) (fatan2 A (fsqrt A a) (fsqrt A (fsub A (f1 A) a))) in
  fmul A (fearth A) c.

(** x: signed distance along the reference parallel; y: along the reference meridian;
    the sign tests are [target >= ref]. *)
Definition geo_to_cartesian (ref tgt : vec3 F) : vec3 F :=
  let dx := haversine (vx ref) (vy ref) (vx ref) (vy tgt) in
  let dy := haversine (vx ref) (vy ref) (vx tgt) (vy ref) in
  let x := if fleb A (vy ref) (vy tgt) then dx else fneg A dx in
  let y := if fleb A (vx ref) (vx tgt) then dy else fneg A dy in
  (x, y, fsub A (vz tgt) (vz ref)).

End Geo.
