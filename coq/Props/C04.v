(** C04 — a run stops exactly at its bounds: duration, iteration limit, or exhaustion. *)
From Coq Require Import List ZArith NArith Bool.
Import ListNotations.
From GS Require Import Num EventLoop Kernel.
From GS Require Import NumZ Sim ExampleKit.
From GS.Proofs Require Import Aux EventLoopP KernelP KernelP2 DriveP.

(** Every executed event lies within the bounds: its timestamp does not exceed the duration and
    its ordinal is below the iteration limit — for every four hooks, every bounds. *)
Theorem C04_executed_within_bounds :
  forall (F : Type) (A : ArithOps F), OrderLaws A -> forall (P H T : Type) (hk : hooks F P H T) (c : kcfg F)
         (fuel : nat) (s : kstate F P H),
    k_inv A s ->
    let '(_, items, _) := k_run A hk c fuel s in
    forall i ts p, In (i, ts, p) (execs items) -> dur_ok A c ts /\ iter_ok c i.
Proof.
  intros F A OL P H T hk c fuel s Hinv. pose proof (k_run_props A OL hk c fuel s Hinv) as Hp.
  destruct (k_run A hk c fuel s) as [[s' items] fin]. destruct Hp as (_ & _ & _ & Hb & _). exact Hb.
Qed.

Theorem C04_any_driving_within_bounds :
  forall (F : Type) (A : ArithOps F), OrderLaws A -> forall (P H T : Type) (hk : hooks F P H T) (c : kcfg F)
         (ops : list (kdrv F P H T)) (s : kstate F P H),
    k_inv A s ->
    let '(_, items) := k_drive A hk c ops s in
    forall i ts p, In (i, ts, p) (execs items) -> dur_ok A c ts /\ iter_ok c i.
Proof.
  intros F A OL P H T hk c ops s Hinv. pose proof (k_drive_props A OL hk c ops s Hinv) as Hp.
  destruct (k_drive A hk c ops s) as [s' items]. destruct Hp as (_ & _ & _ & Hb). exact Hb.
Qed.

(** The run goes on exactly while an eligible event remains: is_simulation_done is false iff the
    queue is non-empty, its earliest event is within the duration, and the iteration limit is not
    reached.  Since events are popped in order, "the earliest is too late" means all are. *)
Theorem C04_done_iff :
  forall (F : Type) (A : ArithOps F) (P H : Type) (c : kcfg F) (s : kstate F P H),
    k_done A c s = false <->
    exists e, el_peek A (k_el s) = Some e /\ dur_ok A c (ev_ts e) /\ iter_ok c (k_iter s).
Proof.
  intros F A P H c s. split; [apply k_done_false|].
  intros (e & Hp & Hd & Hi). unfold k_done, dur_ok, iter_ok in *. rewrite Hp.
  apply orb_false_iff. split.
  - destruct (k_duration c); [exact Hd|reflexivity].
  - destruct (k_maxit c) as [m|]; [apply Nat.leb_gt; exact Hi|reflexivity].
Qed.

(** step_simulation returns True exactly when the run is not finished: after a True, the
    simulator is initialised, not finalised, and not done; after a False it is finalised (or an
    exception escaped). *)
Theorem C04_step_result :
  forall (F : Type) (A : ArithOps F) (P H T : Type) (hk : hooks F P H T) (c : kcfg F) (s : kstate F P H),
    let '(s', _, b) := k_step A hk c s in
    if b then k_final s' = false /\ k_aborted s' = false /\ k_inited s' = true /\ k_done A c s' = false
    else k_final s' = true \/ k_aborted s' = true.
Proof. intros. apply k_step_result. Qed.

(** The main loop stops as soon as the simulation is done, and only then (or on an exception,
    or out of fuel): the blocking run is initialise; loop-while-not-done; finalise. *)
Theorem C04_run_is_loop_while_not_done :
  forall (F : Type) (A : ArithOps F) (P H T : Type) (hk : hooks F P H T) (c : kcfg F) (fuel : nat) (s : kstate F P H),
    k_inited s = false -> k_final s = false -> k_aborted s = false ->
    k_run A hk c (S fuel) s =
    let '(s1, i1) := k_initialize A hk s in
    let '(s2, i2, st) := k_loop A hk c (S fuel) s1 in
    let '(s3, i3, fin) := k_conclude A hk st s2 i2 in
    (s3, i1 ++ i3, fin).
Proof. intros. apply k_run_lifecycle; assumption. Qed.

(** No callback observes a time later than the duration: the clock only ever takes the
    timestamps of executed events, all within the duration. *)
Theorem C04_clock_within_duration :
  forall (F : Type) (A : ArithOps F), OrderLaws A -> forall (P H T : Type) (hk : hooks F P H T) (c : kcfg F)
         (fuel : nat) (s : kstate F P H),
    k_inv A s -> dur_ok A c (el_now (k_el s)) ->
    let '(s', _, _) := k_run A hk c fuel s in dur_ok A c (el_now (k_el s')).
Proof.
  intros F A OL P H T hk c fuel s Hinv H0. pose proof (k_run_props A OL hk c fuel s Hinv) as Hp.
  destruct (k_run A hk c fuel s) as [[s' items] fin]. destruct Hp as (_ & _ & Hn & Hb & _).
  rewrite Hn. unfold exec_ts.
  destruct (execs items) as [|x r] eqn:E using rev_ind; [exact H0|].
  rewrite map_app. simpl. rewrite last_app_default. simpl.
  destruct x as [[i ts] p]. simpl. apply (Hb i ts p). apply in_or_app. right. left. reflexivity.
Qed.

(** events due exactly at the duration are still eligible (the test is "later than") *)
Theorem C04_event_at_duration_is_eligible :
  forall (F : Type) (A : ArithOps F), OrderLaws A -> forall (c : kcfg F) (d : F),
    k_duration c = Some d -> dur_ok A c d.
Proof.
  intros F A OL c d Hd. unfold dur_ok. rewrite Hd. rewrite (ltb_leb A OL), (leb_refl A OL). reflexivity.
Qed.

(** Non-vacuity: timers at 1, 2, 3 and a duration of 2 -- exactly the first two fire, finish sees time 2. *)
Definition ex4 (n : nat) (ps : unit) (now : Z) (c : cb Z) : unit * list (action Z) :=
  match c with CbInit => (tt, [ASetTimer 0 1%Z; ASetTimer 0 2%Z; ASetTimer 0 3%Z]) | _ => (tt, []) end.
Example C04_example :
  runx (cfgx [HTimer] 1 [(0, 0, 0)%Z] 10%Z 0%Z 0%Z 1%Z 1%Z [] []) ex4 (Some 2%Z) None 20 =
  ([TCb 0 0%Z CbInit; TAct 0 (ASetTimer 0 1%Z) Ok; TAct 0 (ASetTimer 0 2%Z) Ok; TAct 0 (ASetTimer 0 3%Z) Ok;
    TCb 0 1%Z (CbTimer 0); TCb 0 2%Z (CbTimer 0); TCb 0 2%Z CbFinish], true, 0, [(0, 0, 0)%Z]).
Proof. vm_compute. reflexivity. Qed.

Print Assumptions C04_executed_within_bounds.
Print Assumptions C04_any_driving_within_bounds.
Print Assumptions C04_done_iff.
Print Assumptions C04_step_result.
Print Assumptions C04_run_is_loop_while_not_done.
Print Assumptions C04_clock_within_duration.
Print Assumptions C04_event_at_duration_is_eligible.
