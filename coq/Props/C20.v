(** C20 — geographic targets map to a metrically faithful local frame. *)
From Coq Require Import Reals Lra Bool.
From GS Require Import Num NumR Geo Sim.
From Coq Require Import ZArith.
From GS Require Import NumZ.
From GS.Proofs Require Import GeoP GeoMetric SimP3.

(** Structure of the conversion (every number type): z is the altitude difference; x is the
    distance along the reference parallel to the target's longitude, signed by the longitude
    difference; y the distance along the reference meridian to the target's latitude, signed by
    the latitude difference — each leg paired with its own sign, in all four quadrants. *)
Theorem C20_structure :
  forall (F : Type) (A : ArithOps F) (ref tgt : vec3 F),
    let dx := haversine A (vx ref) (vy ref) (vx ref) (vy tgt) in
    let dy := haversine A (vx ref) (vy ref) (vx tgt) (vy ref) in
    geo_to_cartesian A ref tgt =
    (if fleb A (vy ref) (vy tgt) then dx else fneg A dx,
     if fleb A (vx ref) (vx tgt) then dy else fneg A dy,
     fsub A (vz tgt) (vz ref)).
Proof. intros. apply geo_structure. Qed.

(** A goto in geographic coordinates sets exactly the target a goto to the converted Cartesian
    point sets (hence, by C11, drives the node to the same place). *)
Theorem C20_goto_geo_same_place :
  forall (F : Type) (A : ArithOps F) (PS : Type) (cfg : scfg F) (h : sstate F PS) now n p,
    do_action A cfg h now n (AGotoGeo p) = do_action A cfg h now n (AGoto (geo_to_cartesian A (c_ref cfg) p)).
Proof. intros. apply goto_geo_is_goto_converted. Qed.

(** Over the reals: the meridian leg depends on the latitude difference only, the parallel leg on
    the longitude difference and the reference latitude only. *)
Theorem C20_leg_terms (lat1 lon1 lat2 lon2 : R) :
  hav_a lat1 lon1 lat2 lon1 = Rsqr (sin ((rad lat2 - rad lat1) / 2)) /\
  hav_a lat1 lon1 lat1 lon2 = (Rsqr (cos (rad lat1)) * Rsqr (sin ((rad lon2 - rad lon1) / 2)))%R.
Proof. split; [apply hav_a_meridian|apply hav_a_parallel]. Qed.

(** North-south separations are preserved EXACTLY: |y| = earth radius x |latitude difference in
    radians|, and y carries the sign of the latitude difference. *)
Theorem C20_y_exact (ref tgt : vec3 R) :
  (Rabs (rad (vx tgt) - rad (vx ref)) < PI)%R ->
  vy (geo_to_cartesian R_ops ref tgt) = (Rearth * (rad (vx tgt) - rad (vx ref)))%R.
Proof.
  intros Hb. rewrite geo_structure. cbv zeta. unfold vy at 1. cbn [fst snd].
  rewrite (haversine_meridian (vx ref) (vy ref) (vx tgt) Hb).
  change (fleb R_ops (vx ref) (vx tgt)) with (Rleb (vx ref) (vx tgt)).
  change (fneg R_ops) with Ropp.
  assert (HPI : (0 < PI / 180)%R) by (pose proof PI_RGT_0; lra).
  destruct (Rleb (vx ref) (vx tgt)) eqn:E.
  - apply Rleb_true in E. rewrite Rabs_right; [reflexivity|]. unfold rad.
    apply Rle_ge. replace (vx tgt * (PI / 180) - vx ref * (PI / 180))%R with ((vx tgt - vx ref) * (PI / 180))%R by ring.
    apply Rmult_le_pos; lra.
  - apply Rleb_false in E. simpl. rewrite Rabs_left; [ring|]. unfold rad.
    replace (vx tgt * (PI / 180) - vx ref * (PI / 180))%R with (- ((vx ref - vx tgt) * (PI / 180)))%R by ring.
    apply Ropp_lt_gt_0_contravar. apply Rmult_gt_0_compat; lra.
Qed.

(** East-west separations (partial form of the metric clause, reference-to-target along the axes):
    |x| lies between the CHORD and the ARC that the longitude difference d (radians) spans on the
    reference parallel, hence within a relative d^2/24 of the arc (1.0e-7 for 10 km at the equator);
    x carries the sign of the longitude difference. *)
Theorem C20_x_between_chord_and_arc (ref tgt : vec3 R) :
  let d := (rad (vy tgt) - rad (vy ref))%R in
  let c := Rabs (cos (rad (vx ref))) in
  (Rabs d < PI)%R ->
  (Rearth * c * Rabs d * (1 - d * d / 24) <= Rabs (vx (geo_to_cartesian R_ops ref tgt)) <= Rearth * c * Rabs d)%R /\
  (2 * Rearth * c * sin (Rabs d / 2) <= Rabs (vx (geo_to_cartesian R_ops ref tgt)))%R /\
  (vy ref <= vy tgt -> 0 <= vx (geo_to_cartesian R_ops ref tgt))%R /\
  (vy tgt < vy ref -> vx (geo_to_cartesian R_ops ref tgt) <= 0)%R.
Proof.
  intros d c Hb.
  assert (Hx : vx (geo_to_cartesian R_ops ref tgt) =
               if Rleb (vy ref) (vy tgt) then haversine R_ops (vx ref) (vy ref) (vx ref) (vy tgt)
               else Ropp (haversine R_ops (vx ref) (vy ref) (vx ref) (vy tgt))) by reflexivity.
  rewrite Hx. clear Hx.
  pose proof (haversine_parallel_bounds (vx ref) (vy ref) (vy tgt) Hb) as [[Hlo Hhi] Hcub].
  fold d c in Hlo, Hhi, Hcub.
  set (L := haversine R_ops (vx ref) (vy ref) (vx ref) (vy tgt)) in *.
  assert (HL : (0 <= L)%R).
  { eapply Rle_trans; [|exact Hlo].
    assert (0 <= c)%R by apply Rabs_pos. assert (0 <= Rabs d)%R by apply Rabs_pos.
    assert (0 <= sin (Rabs d / 2))%R by (apply sin_ge_0; lra).
    unfold Rearth. repeat apply Rmult_le_pos; lra. }
  assert (Hsq : (Rabs d * Rabs d = d * d)%R).
  { unfold Rabs. destruct (Rcase_abs d); ring. }
  rewrite Hsq in Hcub.
  destruct (Rleb (vy ref) (vy tgt)) eqn:E.
  - apply Rleb_true in E. rewrite (Rabs_right L) by lra. repeat split; try assumption; intros; lra.
  - apply Rleb_false in E. rewrite Rabs_Ropp, (Rabs_right L) by lra. repeat split; try assumption; intros; lra.
Qed.

(** Two targets on one meridian (same longitude): their converted points are exactly as far apart
    as the great circle between them is long — the x coordinates coincide and the y coordinates
    differ by (earth radius) x (latitude difference). *)
Theorem C20_same_meridian_pairs_exact (ref p q : vec3 R) :
  vy p = vy q ->
  (Rabs (rad (vx p) - rad (vx ref)) < PI)%R -> (Rabs (rad (vx q) - rad (vx ref)) < PI)%R ->
  (Rabs (rad (vx q) - rad (vx p)) < PI)%R ->
  vx (geo_to_cartesian R_ops ref p) = vx (geo_to_cartesian R_ops ref q) /\
  Rabs (vy (geo_to_cartesian R_ops ref q) - vy (geo_to_cartesian R_ops ref p)) =
  haversine R_ops (vx p) (vy p) (vx q) (vy q).
Proof.
  intros Hlon Hp Hq Hpq. split.
  - assert (Hx : forall t, vx (geo_to_cartesian R_ops ref t) =
                 if Rleb (vy ref) (vy t) then haversine R_ops (vx ref) (vy ref) (vx ref) (vy t)
                 else Ropp (haversine R_ops (vx ref) (vy ref) (vx ref) (vy t))) by reflexivity.
    rewrite !Hx, Hlon. reflexivity.
  - rewrite (C20_y_exact ref p Hp), (C20_y_exact ref q Hq), <- Hlon.
    rewrite (haversine_meridian (vx p) (vy p) (vx q) Hpq).
    replace (Rearth * (rad (vx q) - rad (vx ref)) - Rearth * (rad (vx p) - rad (vx ref)))%R
      with (Rearth * (rad (vx q) - rad (vx p)))%R by ring.
    rewrite Rabs_mult. f_equal. apply Rabs_right. unfold Rearth. lra.
Qed.

(** The reference converts to the origin. *)
Theorem C20_reference_is_origin (ref : vec3 R) :
  haversine R_ops (vx ref) (vy ref) (vx ref) (vy ref) = 0%R.
Proof. apply haversine_same_point. Qed.

(** Non-vacuity (integers; structure only): the reference maps to the origin, an altitude difference to z. *)
Example C20_example :
  geo_to_cartesian Z_ops (1, 2, 3)%Z (1, 2, 3)%Z = (0, 0, 0)%Z /\ geo_to_cartesian Z_ops (1, 2, 3)%Z (1, 2, 10)%Z = (0, 0, 7)%Z.
Proof. vm_compute. split; reflexivity. Qed.

Print Assumptions C20_structure.
Print Assumptions C20_goto_geo_same_place.
Print Assumptions C20_leg_terms.
Print Assumptions C20_y_exact.
Print Assumptions C20_reference_is_origin.
Print Assumptions C20_x_between_chord_and_arc.
Print Assumptions C20_same_meridian_pairs_exact.
