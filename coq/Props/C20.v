(** C20 — geographic targets map to a metrically faithful local frame. *)
From Coq Require Import Reals Lra Bool.
From GS Require Import Num NumR Geo Sim.
From Coq Require Import ZArith.
From GS Require Import NumZ.
From GS.Proofs Require Import GeoP SimP3.

(** Structure of the conversion (every number type): z is the altitude difference; x is the
    distance along the reference parallel to the target's longitude, signed by the longitude
    difference; y the distance along the reference meridian to the target's latitude, signed by
    the latitude difference — each leg paired with its own sign, in all four quadrants. *)
Theorem C20_structure :
  forall (F : Type) (A : ArithOps F) (ref tgt : vec3 F),
    let dx := haversine A (vx ref) (vy ref) (vx ref) (vy tgt) in
    let dy := haversine A (vx ref) (vy ref) (vx tgt) (vy ref) in
    geo_to_cartesian A ref tgt =
    (if fleb A (vy ref) (vy tgt) then dx else fneg A dx,
     if fleb A (vx ref) (vx tgt) then dy else fneg A dy,
     fsub A (vz tgt) (vz ref)).
Proof. intros. apply geo_structure. Qed.

(** A goto in geographic coordinates sets exactly the target a goto to the converted Cartesian
    point sets (hence, by C11, drives the node to the same place). *)
Theorem C20_goto_geo_same_place :
  forall (F : Type) (A : ArithOps F) (PS : Type) (cfg : scfg F) (h : sstate F PS) now n p,
    do_action A cfg h now n (AGotoGeo p) = do_action A cfg h now n (AGoto (geo_to_cartesian A (c_ref cfg) p)).
Proof. intros. apply goto_geo_is_goto_converted. Qed.

(** Over the reals: the meridian leg depends on the latitude difference only, the parallel leg on
    the longitude difference and the reference latitude only. *)
Theorem C20_leg_terms (lat1 lon1 lat2 lon2 : R) :
  hav_a lat1 lon1 lat2 lon1 = Rsqr (sin ((rad lat2 - rad lat1) / 2)) /\
  hav_a lat1 lon1 lat1 lon2 = (Rsqr (cos (rad lat1)) * Rsqr (sin ((rad lon2 - rad lon1) / 2)))%R.
Proof. split; [apply hav_a_meridian|apply hav_a_parallel]. Qed.

(** North-south separations are preserved EXACTLY: |y| = earth radius x |latitude difference in
    radians|, and y carries the sign of the latitude difference. *)
Theorem C20_y_exact (ref tgt : vec3 R) :
  (Rabs (rad (vx tgt) - rad (vx ref)) < PI)%R ->
  vy (geo_to_cartesian R_ops ref tgt) = (Rearth * (rad (vx tgt) - rad (vx ref)))%R.
Proof.
  intros Hb. rewrite geo_structure. cbv zeta. unfold vy at 1. cbn [fst snd].
  rewrite (haversine_meridian (vx ref) (vy ref) (vx tgt) Hb).
  change (fleb R_ops (vx ref) (vx tgt)) with (Rleb (vx ref) (vx tgt)).
  change (fneg R_ops) with Ropp.
  assert (HPI : (0 < PI / 180)%R) by (pose proof PI_RGT_0; lra).
  destruct (Rleb (vx ref) (vx tgt)) eqn:E.
  - apply Rleb_true in E. rewrite Rabs_right; [reflexivity|]. unfold rad.
    apply Rle_ge. replace (vx tgt * (PI / 180) - vx ref * (PI / 180))%R with ((vx tgt - vx ref) * (PI / 180))%R by ring.
    apply Rmult_le_pos; lra.
  - apply Rleb_false in E. simpl. rewrite Rabs_left; [ring|]. unfold rad.
    replace (vx tgt * (PI / 180) - vx ref * (PI / 180))%R with (- ((vx ref - vx tgt) * (PI / 180)))%R by ring.
    apply Ropp_lt_gt_0_contravar. apply Rmult_gt_0_compat; lra.
Qed.

(** The reference converts to the origin. *)
Theorem C20_reference_is_origin (ref : vec3 R) :
  haversine R_ops (vx ref) (vy ref) (vx ref) (vy ref) = 0%R.
Proof. apply haversine_same_point. Qed.

(** Non-vacuity (integers; structure only): the reference maps to the origin, an altitude difference to z. *)
Example C20_example :
  geo_to_cartesian Z_ops (1, 2, 3)%Z (1, 2, 3)%Z = (0, 0, 0)%Z /\ geo_to_cartesian Z_ops (1, 2, 3)%Z (1, 2, 10)%Z = (0, 0, 7)%Z.
Proof. vm_compute. split; reflexivity. Qed.

Print Assumptions C20_structure.
Print Assumptions C20_goto_geo_same_place.
Print Assumptions C20_leg_terms.
Print Assumptions C20_y_exact.
Print Assumptions C20_reference_is_origin.
