(** C14 — protocols behave the same in every environment wrapper. *)
From Coq Require Import List Arith Bool.
Import ListNotations.
From GS Require Import Num Sim Interop.
From Coq Require Import ZArith.
From GS Require Import NumZ.
From GS.Proofs Require Import InteropP.

(** Under the interop wrapper every callback returns exactly the requests the protocol issued
    during that callback, in order and with unchanged content, and nothing left over from earlier
    callbacks — for every protocol program and every sequence of callbacks. *)
Theorem C14_collect_exact :
  forall (F : Type) (A : ArithOps F) (rs : list (ireq F)),
    interop_callback A [] rs = (flat_map (fun r => fst (interop_req A r)) rs, [], map (fun r => snd (interop_req A r)) rs).
Proof. intros. apply interop_collect_exact. Qed.

Theorem C14_session_exact :
  forall (F : Type) (A : ArithOps F) (cbs : list (list (ireq F))),
    interop_session A [] cbs =
    map (fun rs => (flat_map (fun r => fst (interop_req A r)) rs, map (fun r => snd (interop_req A r)) rs)) cbs.
Proof. intros. apply interop_session_exact. Qed.

(** A protocol fed the same callbacks issues the same requests whether wrapped for the python
    simulator or for interop (programs that do not cancel timers — see the known finding):
    the consequences returned under interop, tracked variables aside, are the requests the
    python wrapper forwards to its handlers. *)
Theorem C14_wrapper_equivalence :
  forall (F : Type) (A : ArithOps F) (rs : list (ireq F)),
    forallb (@no_cancel F) rs = true ->
    filter (fun c => negb (is_track c)) (flat_map (fun r => fst (interop_req A r)) rs) = flat_map (@python_forwarded F) rs.
Proof. intros. apply wrapper_equivalence; assumption. Qed.

(** ... and the python wrapper forwards the requests of a callback in the order issued. *)
Theorem C14_python_forwards_in_order :
  forall (F PS : Type) (A : ArithOps F) (cfg : scfg F) (h : sstate F PS) now n acts,
    map (fun it => match it with TAct _ a _ => Some a | _ => None end) (snd (do_actions A cfg h now n acts))
    = map (@Some (action F)) acts.
Proof. intros. apply python_requests_in_order. Qed.

(** outcomes under interop: everything succeeds except cancel_timer (NotImplementedError: the
    recorded known finding) and a negative transmission range (ValueError, as under python) *)
Theorem C14_outcomes :
  forall (F : Type) (A : ArithOps F) (r : ireq F),
    snd (interop_req A r) =
    match r with
    | RAct (ACancel _) => INotImplemented
    | RAct (ASetRange x) => if fltb A x (f0 A) then IValueError else IOk
    | _ => IOk
    end.
Proof. intros. apply interop_outcomes. Qed.

Theorem C14_cancel_refuted :
  forall (F : Type) (A : ArithOps F) (name : nat), interop_req A (RAct (ACancel name)) = ([], INotImplemented).
Proof. intros. apply cancel_not_supported. Qed.

(** simulator-only extensions turn into no-ops outside the python simulator instead of failing *)
Theorem C14_extensions_noop :
  forall (F : Type) (A : ArithOps F) (c : ext_call F),
    fst (ext_behaviour A InteropProv c) = EffNone /\
    fst (ext_behaviour A (PythonProv false) c) = EffNone /\
    (snd (ext_behaviour A InteropProv c) = IOk \/ exists r, c = ExtCommSetRange r /\ fltb A r (f0 A) = true).
Proof. intros. apply extensions_noop_outside_python. Qed.

(** Non-vacuity: three callbacks under the interop wrapper; each returns exactly its own requests, in order;
    cancel_timer is the documented unsupported call. *)
Example C14_example :
  interop_session Z_ops [] [[RAct (ASetTimer 1 5%Z); RAct (ASend 3 (Some 2)); RTrack 1 2]; []; [RAct (ACancel 1); RAct (AGoto (1, 2, 3)%Z)]] =
  [([CTimer 1 5%Z; CComm false 3 (Some 2); CTrack 1 2], [IOk; IOk; IOk]); ([], []); ([CGoto (1, 2, 3)%Z], [INotImplemented; IOk])].
Proof. vm_compute. reflexivity. Qed.

Print Assumptions C14_collect_exact.
Print Assumptions C14_session_exact.
Print Assumptions C14_wrapper_equivalence.
Print Assumptions C14_python_forwards_in_order.
Print Assumptions C14_outcomes.
Print Assumptions C14_cancel_refuted.
Print Assumptions C14_extensions_noop.
