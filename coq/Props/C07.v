(** C07 — timers fire once, on time, for their owner, unless cancelled by name. *)
From Coq Require Import List ZArith NArith Bool.
Import ListNotations.
From GS Require Import Num EventLoop Kernel Sim NumZ.
From GS.Proofs Require Import Aux SimP SimP3 SimP4 KernelP TraceSpec TimerSpec DeliverOnce.

Section C07.
Context {F : Type} (A : ArithOps F) {PS : Type} (cfg : scfg F)
        (react : nat -> PS -> F -> cb F -> PS * list (action F)).

(** a timer in the past is refused without side effects *)
Theorem C07_past_refused (h : sstate F PS) now n name ts :
  has_timer cfg = true -> fltb A ts now = true -> do_action A cfg h now n (ASetTimer name ts) = (h, [], ErrTimer).
Proof. apply timer_past_refused. Qed.

(** an accepted timer: fresh identifier, one pending entry, one event at exactly the requested
    time for (owner, name, identifier); nothing else changes *)
Theorem C07_set_accepted (h : sstate F PS) now n name ts :
  has_timer cfg = true -> fltb A ts now = false ->
  do_action A cfg h now n (ASetTimer name ts) =
  (set_nextid (set_pending h (s_pending h ++ [(n, name, s_nextid h)])) (N.succ (s_nextid h)),
   [(ts, EvTimer n name (s_nextid h))], Ok).
Proof. apply timer_set_accepted. Qed.

(** cancelling a name removes all and only that node's pending timers of that name; everything
    else (other names, other nodes, every other field) is unchanged *)
Theorem C07_cancel_exact (h : sstate F PS) now n name :
  has_timer cfg = true ->
  exists h', do_action A cfg h now n (ACancel name) = (h', [], Ok) /\
    (forall e, In e (s_pending h') <-> In e (s_pending h) /\ pend_is n name e = false) /\
    s_nextid h' = s_nextid h /\ s_pos h' = s_pos h /\ s_tgt h' = s_tgt h /\ s_speed h' = s_speed h /\
    s_range h' = s_range h /\ s_ps h' = s_ps h /\ s_flag h' = s_flag h /\ s_cursor h' = s_cursor h /\
    s_astate h' = s_astate h.
Proof. intros Ht. exact (cancel_exact A cfg react h now n name Ht). Qed.

(** the event of a timer calls handle_timer iff its identifier is still pending, on the owner,
    with the same name; the entry is forgotten BEFORE the protocol is called, so the handler
    itself may cancel or re-set the same name; a cancelled timer's event does nothing at all *)
Theorem C07_fire (h : sstate F PS) now n name id :
  sim_exec A cfg react h now (EvTimer n name id) =
  if existsb (pend_id n name id) (s_pending h)
  then callback A cfg react (set_pending h (filter (fun e => negb (pend_id n name id e)) (s_pending h))) now n (CbTimer name)
  else (h, [], []).
Proof. apply timer_fire. Qed.

(** the callback happens at the event's time (the requested time), on the owner *)
Theorem C07_fire_callback (h : sstate F PS) now n name id :
  cbs_of (snd (sim_exec A cfg react h now (EvTimer n name id))) =
  if existsb (pend_id n name id) (s_pending h) && (n <? length (s_ps h))%nat then [(n, pnow A cfg now, CbTimer name)] else [].
Proof. apply (sim_exec_cbs A cfg react h now (EvTimer n name id)). Qed.

(** identifiers name timers uniquely in every state reachable by executing events, whatever
    the protocols do (also from inside timer handlers) ... *)
Theorem C07_identifiers_unique (h : sstate F PS) now p :
  pend_ok h -> pend_ok (fst (fst (sim_exec A cfg react h now p))).
Proof. apply sim_exec_pend_ok. Qed.

Theorem C07_identifiers_unique_callbacks (h : sstate F PS) now n c :
  pend_ok h -> pend_ok (fst (fst (callback A cfg react h now n c))).
Proof. apply callback_pend_ok. Qed.

(** ... hence firing forgets exactly the fired timer and no other *)
Theorem C07_fire_removes_exactly (h : sstate F PS) n name id :
  pend_ok h -> In (n, name, id) (s_pending h) ->
  forall e, In e (filter (fun e => negb (pend_id n name id e)) (s_pending h)) <-> In e (s_pending h) /\ e <> (n, name, id).
Proof. apply fire_removes_exactly. Qed.

(** identifiers are handed out once each: whatever the protocols do while an event is executed
    (or during initialisation), the timer events requested carry consecutive brand-new
    identifiers starting at the counter, which advances past them; no other request carries an
    identifier.  So every accepted timer has its own event, and since every event is executed at
    most once (C02), no timer can fire twice. *)
Theorem C07_identifiers_never_reused (h : sstate F PS) now p :
  exists n, s_nextid (fst (fst (sim_exec A cfg react h now p))) = (s_nextid h + N.of_nat n)%N /\
            timer_ids (snd (fst (sim_exec A cfg react h now p))) = ids_from (s_nextid h) n /\
            NoDup (ids_from (s_nextid h) n).
Proof.
  destruct (sim_exec_fresh A cfg react h now p) as (n & E & T). exists n. split; [exact E|]. split; [exact T|apply ids_from_NoDup].
Qed.

Theorem C07_identifiers_never_reused_init (h : sstate F PS) :
  exists n, s_nextid (fst (fst (sim_init A cfg react h))) = (s_nextid h + N.of_nat n)%N /\
            timer_ids (snd (fst (sim_init A cfg react h))) = ids_from (s_nextid h) n.
Proof. destruct (sim_init_fresh A cfg react h) as (n & E & T). exists n. auto. Qed.

(** WHOLE RUNS.  [t_next] / [t_ok] (Proofs/TimerSpec.v) replay a trace with an abstract timer
    table that is changed only by accepted set-timer requests (fresh identifier = the counter),
    accepted cancel requests (all entries of that node and name) and the execution of a timer
    event that is still in the table (that entry).  Every run from the state build() leaves --
    any protocol, any bounds, cut anywhere by the fuel -- is accepted by this acceptor, and the
    simulator's own pending table and identifier counter are the replayed ones. *)
Theorem C07_whole_run_refines_timer_table (c : kcfg F) fuel ps0 :
  let '(s0, i0) := sim_start A cfg ps0 in
  let '(s', items, fin) := k_run A (sim_hooks A cfg react) c fuel s0 in
  accept (t_next A cfg) t_ok t0 (i0 ++ items) /\
  after (t_next A cfg) t0 (i0 ++ items) = mkT (s_pending (k_h s')) (s_nextid (k_h s')) None.
Proof. exact (whole_run_accepted A cfg react c fuel ps0). Qed.

(** The same for ANY way of driving: every interleaving of step_simulation() calls and requests made
    from outside the callbacks (before the first step, between two steps) through a node's provider. *)
Theorem C07_any_driving_refines_timer_table (c : kcfg F) ops ps0 :
  let '(s0, i0) := sim_start A cfg ps0 in
  let '(s', items) := sim_drive A cfg react c ops s0 in
  accept (t_next A cfg) t_ok t0 (i0 ++ items) /\
  after (t_next A cfg) t0 (i0 ++ items) = mkT (s_pending (k_h s')) (s_nextid (k_h s')) None.
Proof. exact (whole_drive_accepted A cfg react c ops ps0). Qed.

(** EXACTLY: the timer callbacks of a whole run are, in order, the executions of exactly those timer events whose
    (node, name, identifier) is in the replayed table at the moment they run ([fired]: judged on the table as the
    visible history has made it -- an accepted set-timer put the entry there, an accepted cancel of that node and
    name or an earlier firing took it out), each on its node, with its name, at the time reported for the event's
    due time.  With C07_each_event_once (an accepted timer's event is executed exactly once until the run stops):
    a timer fires exactly once, at its time, unless cancelled before. *)
Theorem C07_timer_callbacks_exactly (c : kcfg F) fuel ps0 :
  let '(s0, i0) := sim_start A cfg ps0 in
  let '(s', items, fin) := k_run A (sim_hooks A cfg react) c fuel s0 in
  timer_cbs (i0 ++ items) = fired A cfg t0 (i0 ++ items).
Proof. exact (timer_callbacks_exactly A cfg react c fuel ps0). Qed.

(** ONLY IF: in an accepted trace a timer callback is the very next thing after the execution of
    a timer event of the same node and name whose identifier is in the table at that moment, and
    it reports that event's time. *)
Theorem C07_timer_callback_only_from_pending_event x0 pre n t name post :
  accept (t_next A cfg) t_ok x0 (pre ++ KUser (TCb n t (CbTimer name)) :: post) -> t_exp x0 = None ->
  exists pre' i ts sq id, pre = pre' ++ [KExec i ts sq (EvTimer n name id)] /\ t = pnow A cfg ts /\
                          In (n, name, id) (t_tbl (after (t_next A cfg) x0 pre')).
Proof. exact (timer_callback_has_cause A cfg x0 pre n t name post). Qed.

(** IF: the execution of a timer event whose entry is in the table (for an existing node) is
    immediately followed by its callback. *)
Theorem C07_pending_timer_event_fires x0 pre i ts sq n name id post :
  accept (t_next A cfg) t_ok x0 (pre ++ KExec i ts sq (EvTimer n name id) :: post) ->
  In (n, name, id) (t_tbl (after (t_next A cfg) x0 pre)) -> n < c_nnodes cfg ->
  (post = [] /\ t_exp (after (t_next A cfg) x0 (pre ++ [KExec i ts sq (EvTimer n name id)])) = Some (n, pnow A cfg ts, CbTimer name)) \/
  exists post', post = KUser (TCb n (pnow A cfg ts) (CbTimer name)) :: post'.
Proof.
  intros Hacc Hin Hn. apply (cause_fires A cfg x0 pre _ post n (pnow A cfg ts) (CbTimer name) Hacc).
  simpl. apply (pend_id_In n name id) in Hin. rewrite Hin. apply Nat.ltb_lt in Hn. rewrite Hn. reflexivity.
Qed.

(** AT MOST ONCE, and NEVER AFTER A CANCEL: facts about the acceptor alone. *)
Theorem C07_fired_never_again x0 pre i ts sq n name id mid n' name' :
  t_wf x0 -> In (n, name, id) (t_tbl (after (t_next A cfg) x0 pre)) ->
  ~ In (n', name', id) (t_tbl (after (t_next A cfg) x0 (pre ++ KExec i ts sq (EvTimer n name id) :: mid))).
Proof.
  intros Hw Hin Hin'. apply (pend_id_In n name id) in Hin. apply (pend_id_In n' name' id) in Hin'.
  rewrite (fired_never_again A cfg x0 pre i ts sq n name id mid n' name' Hw Hin) in Hin'. discriminate.
Qed.

Theorem C07_cancelled_never_fires x0 pre n name mid id :
  has_timer cfg = true -> (id < t_ctr (after (t_next A cfg) x0 pre))%N ->
  ~ In (n, name, id) (t_tbl (after (t_next A cfg) x0 (pre ++ KUser (TAct n (ACancel name) Ok) :: mid))).
Proof.
  intros Ht Hlt Hin. apply (pend_id_In n name id) in Hin.
  rewrite (cancelled_never_fires A cfg x0 pre n name mid id Ht Hlt) in Hin. discriminate.
Qed.

End C07.

(** "exactly once": each accepted timer has its own event (fresh identifier), and by C02 every
    accepted event is executed exactly once until the run terminates. *)
Theorem C07_each_event_once :
  forall (F : Type) (A : ArithOps F), OrderLaws A -> forall (P H T : Type) (hk : hooks F P H T) (c : kcfg F)
         (fuel : nat) (s : kstate F P H),
    k_inv A s ->
    let '(s', items, _) := k_run A hk c fuel s in
    Permutation.Permutation (map key (el_q (k_el s)) ++ scheds items) (map ekey (execs items) ++ map key (el_q (k_el s'))).
Proof. intros F A OL P H T hk c fuel s. exact (k_run_conservation A OL hk c fuel s). Qed.

(** Non-vacuity: a concrete run (integers as the number type) in which one timer fires and one is
    cancelled; the replayed table ends empty with two identifiers handed out. *)
Definition ex_cfg : scfg Z := mkSCfg [HTimer] 1 [(0, 0, 0)%Z] [0] 10%Z 0%Z 0%Z 1%Z 1%Z (0, 0, 0)%Z [] [].
Definition ex_react (n : nat) (ps : unit) (now : Z) (c : cb Z) : unit * list (action Z) :=
  match c with
  | CbInit => (tt, [ASetTimer 0 5%Z; ASetTimer 1 7%Z; ACancel 1])
  | _ => (tt, [])
  end.
Example C07_example :
  let '(s0, i0) := sim_start NumZ.Z_ops ex_cfg (fun _ => tt) in
  let '(s', items, fin) := k_run NumZ.Z_ops (sim_hooks NumZ.Z_ops ex_cfg ex_react) (mkCfg None None) 10 s0 in
  fin = true /\ after (t_next NumZ.Z_ops ex_cfg) t0 (i0 ++ items) = mkT [] 2%N None /\
  flat_map (fun it => match it with KUser (TCb n t (CbTimer name)) => [(n, t, name)] | _ => [] end) items = [(0, 5%Z, 0)].
Proof. vm_compute. repeat split. Qed.

Print Assumptions C07_past_refused.
Print Assumptions C07_set_accepted.
Print Assumptions C07_cancel_exact.
Print Assumptions C07_fire.
Print Assumptions C07_fire_callback.
Print Assumptions C07_identifiers_unique.
Print Assumptions C07_identifiers_unique_callbacks.
Print Assumptions C07_fire_removes_exactly.
Print Assumptions C07_each_event_once.
Print Assumptions C07_identifiers_never_reused.
Print Assumptions C07_identifiers_never_reused_init.
Print Assumptions C07_whole_run_refines_timer_table.
Print Assumptions C07_timer_callbacks_exactly.
Print Assumptions C07_any_driving_refines_timer_table.
Print Assumptions C07_timer_callback_only_from_pending_event.
Print Assumptions C07_pending_timer_event_fires.
Print Assumptions C07_fired_never_again.
Print Assumptions C07_cancelled_never_fires.
