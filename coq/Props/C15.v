(** C15 — dispatcher runs handlers newest-first, then the protocol, honouring INTERRUPT. *)
From Coq Require Import List Arith Bool.
Import ListNotations.
From GS Require Import Dispatcher.
From GS.Proofs Require Import DispatcherP.

(** registering puts the handler at the front of its chain (newest first) and touches no other chain *)
Theorem C15_register :
  forall s i k h w, get_w s i = Some w ->
    d_register s i k h = (put_w s i (set_chain w k (h :: chain w k)), []) /\
    (forall k', k' <> k -> chain (set_chain w k (h :: chain w k)) k' = chain w k').
Proof. exact register_spec. Qed.

(** unregistering removes exactly the newest registration of that handler: every other entry
    stays, in order; an absent handler raises ValueError and nothing changes *)
Theorem C15_unregister :
  forall s i k h w, get_w s i = Some w ->
    (In h (chain w k) ->
       exists pre suf, chain w k = pre ++ h :: suf /\ ~ In h pre /\
         d_unregister s i k h = (put_w s i (set_chain w k (pre ++ suf)), [])) /\
    (~ In h (chain w k) -> d_unregister s i k h = (s, [DValueError])).
Proof. exact unregister_spec. Qed.

(** asking for a dispatcher twice yields the same chain rather than wrapping twice *)
Theorem C15_create_idempotent : forall s i, d_create (d_create s i) i = d_create s i.
Proof. exact create_idempotent. Qed.
Theorem C15_create_on_wrapped_is_noop : forall s i w, get_w s i = Some w -> d_create s i = s.
Proof. exact create_wrapped_noop. Qed.

(** handlers registered for one protocol instance never affect, or run for, another *)
Theorem C15_instance_isolation :
  forall s i j k h, i <> j ->
    get_w (fst (d_register s i k h)) j = get_w s j /\
    get_w (fst (d_unregister s i k h)) j = get_w s j /\
    get_w (d_create s i) j = get_w s j.
Proof. exact instance_isolation. Qed.

Theorem C15_calls_only_own_instance :
  forall beh s snap inst k it, In it (snd (run_chain beh s snap inst k)) ->
    match it with DCall i k' _ => i = inst /\ k' = k | DProto i k' => i = inst /\ k' = k | _ => True end.
Proof. exact dispatch_only_own_instance. Qed.

(** for EVERY handler behaviour (results and re-entrant (un)registrations): one dispatch invokes
    the chain as it was when the dispatch started, newest first, each entry at most once, as a
    prefix — so a handler that unregisters itself or others never makes a still-registered one be
    skipped, and one that registers never runs twice *)
Theorem C15_dispatch_runs_snapshot_prefix :
  forall beh s snap inst k, exists suf, snap = calls (snd (run_chain beh s snap inst k)) ++ suf.
Proof. exact dispatch_calls_prefix. Qed.

(** initialize and finish always run the whole chain, then the protocol's method *)
Theorem C15_init_finish_whole_chain :
  forall beh s snap inst k, interruptible k = false ->
    calls (snd (run_chain beh s snap inst k)) = snap /\ proto_called (snd (run_chain beh s snap inst k)) = true.
Proof. exact dispatch_whole_chain_when_not_interruptible. Qed.

(** timer / packet / telemetry: the protocol's method runs iff the whole chain ran; if it did
    not, some handler was invoked and the chain stopped after it (it returned INTERRUPT) *)
Theorem C15_interrupt :
  forall beh s snap inst k,
    (proto_called (snd (run_chain beh s snap inst k)) = true -> calls (snd (run_chain beh s snap inst k)) = snap) /\
    (proto_called (snd (run_chain beh s snap inst k)) = false ->
       interruptible k = true /\ calls (snd (run_chain beh s snap inst k)) <> []).
Proof. exact dispatch_interrupt. Qed.

(** CONTINUE and None never stop the chain *)
Theorem C15_continue_and_none_do_not_stop :
  forall beh s snap inst k, (forall h n, fst (beh h n) <> RInterrupt) ->
    calls (snd (run_chain beh s snap inst k)) = snap /\ proto_called (snd (run_chain beh s snap inst k)) = true.
Proof. exact dispatch_no_interrupt. Qed.

Theorem C15_unwrapped_instance :
  forall beh s inst k, get_w s inst = None -> d_dispatch beh s inst k = (s, [DProto inst k]).
Proof. exact dispatch_unwrapped. Qed.

(** Non-vacuity: handler 1 unregisters itself while running; handler 0 (older) is not skipped. *)
Example C15_example :
  let beh := fun h n => if Nat.eqb h 1 then (RContinue, [ReUnreg 0 KTimer 1]) else (RContinue, []) in
  snd (d_run beh (d_init 1 3) [DCreate 0; DRegister 0 KTimer 0; DRegister 0 KTimer 1; DRegister 0 KTimer 2;
                              DDispatch 0 KTimer; DDispatch 0 KTimer])
  = [[]; []; []; []; [DCall 0 KTimer 2; DCall 0 KTimer 1; DCall 0 KTimer 0; DProto 0 KTimer];
     [DCall 0 KTimer 2; DCall 0 KTimer 0; DProto 0 KTimer]].
Proof. vm_compute. reflexivity. Qed.

Print Assumptions C15_register.
Print Assumptions C15_unregister.
Print Assumptions C15_create_idempotent.
Print Assumptions C15_create_on_wrapped_is_noop.
Print Assumptions C15_instance_isolation.
Print Assumptions C15_calls_only_own_instance.
Print Assumptions C15_dispatch_runs_snapshot_prefix.
Print Assumptions C15_init_finish_whole_chain.
Print Assumptions C15_interrupt.
Print Assumptions C15_continue_and_none_do_not_stop.
Print Assumptions C15_unwrapped_instance.
