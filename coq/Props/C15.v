(** C15 — dispatcher runs handlers newest-first, then the protocol, honouring INTERRUPT. *)
From Coq Require Import List Arith Bool.
Import ListNotations.
From GS Require Import Dispatcher.
From GS.Proofs Require Import DispatcherP.

(** registering puts the handler at the front of its chain (newest first) and touches no other chain *)
Theorem C15_register :
  forall s i k h w, get_w s i = Some w ->
    d_register s i k h = (put_w s i (set_chain w k (h :: chain w k)), []) /\
    (forall k', k' <> k -> chain (set_chain w k (h :: chain w k)) k' = chain w k').
Proof. exact register_spec. Qed.

(** unregistering removes exactly the newest registration of that handler: every other entry
    stays, in order; an absent handler raises ValueError and nothing changes *)
Theorem C15_unregister :
  forall s i k h w, get_w s i = Some w ->
    (In h (chain w k) ->
       exists pre suf, chain w k = pre ++ h :: suf /\ ~ In h pre /\
         d_unregister s i k h = (put_w s i (set_chain w k (pre ++ suf)), [])) /\
    (~ In h (chain w k) -> d_unregister s i k h = (s, [DValueError])).
Proof. exact unregister_spec. Qed.

(** asking for a dispatcher twice yields the same chain rather than wrapping twice *)
Theorem C15_create_idempotent : forall s i, d_create (d_create s i) i = d_create s i.
Proof. exact create_idempotent. Qed.
Theorem C15_create_on_wrapped_is_noop : forall s i w, get_w s i = Some w -> d_create s i = s.
Proof. exact create_wrapped_noop. Qed.

(** handlers registered for one protocol instance never affect, or run for, another *)
Theorem C15_instance_isolation :
  forall s i j k h, i <> j ->
    get_w (fst (d_register s i k h)) j = get_w s j /\
    get_w (fst (d_unregister s i k h)) j = get_w s j /\
    get_w (d_create s i) j = get_w s j.
Proof. exact instance_isolation. Qed.

Theorem C15_calls_only_own_instance :
  forall beh disp s snap inst k it, In it (snd (run_chain beh disp s snap inst k)) ->
    match it with DCall i k' _ => i = inst /\ k' = k | DProto i k' => i = inst /\ k' = k | _ => True end.
Proof. exact dispatch_only_own_instance. Qed.

(** for EVERY handler behaviour (results, re-entrant (un)registrations, and dispatches the handler starts itself --
    [disp] is whatever such a nested dispatch does): one dispatch invokes
    the chain as it was when the dispatch started, newest first, each entry at most once, as a
    prefix — so a handler that unregisters itself or others never makes a still-registered one be
    skipped, and one that registers never runs twice *)
Theorem C15_dispatch_runs_snapshot_prefix :
  forall beh disp s snap inst k, exists suf, snap = calls (snd (run_chain beh disp s snap inst k)) ++ suf.
Proof. exact dispatch_calls_prefix. Qed.

(** initialize and finish always run the whole chain, then the protocol's method *)
Theorem C15_init_finish_whole_chain :
  forall beh disp s snap inst k, interruptible k = false ->
    calls (snd (run_chain beh disp s snap inst k)) = snap /\ proto_called (snd (run_chain beh disp s snap inst k)) = true.
Proof. exact dispatch_whole_chain_when_not_interruptible. Qed.

(** timer / packet / telemetry: the protocol's method runs iff the whole chain ran; if it did
    not, some handler was invoked and the chain stopped after it (it returned INTERRUPT) *)
Theorem C15_interrupt :
  forall beh disp s snap inst k,
    (proto_called (snd (run_chain beh disp s snap inst k)) = true -> calls (snd (run_chain beh disp s snap inst k)) = snap) /\
    (proto_called (snd (run_chain beh disp s snap inst k)) = false ->
       interruptible k = true /\ calls (snd (run_chain beh disp s snap inst k)) <> []).
Proof. exact dispatch_interrupt. Qed.

(** CONTINUE and None never stop the chain *)
Theorem C15_continue_and_none_do_not_stop :
  forall beh disp s snap inst k, (forall h n, fst (beh h n) <> RInterrupt) ->
    calls (snd (run_chain beh disp s snap inst k)) = snap /\ proto_called (snd (run_chain beh disp s snap inst k)) = true.
Proof. exact dispatch_no_interrupt. Qed.

Theorem C15_unwrapped_instance :
  forall beh disp s inst k, get_w s inst = None -> d_dispatch beh disp s inst k = (s, [DProto inst k]).
Proof. exact dispatch_unwrapped. Qed.

(** the dispatcher with nested dispatches is [run_chain] with itself as [disp]; so all of the above holds for
    it, and for every dispatch started from inside a handler, at every depth *)
Theorem C15_dispatcher_unfold :
  forall beh f s inst k,
    dispatchF beh (S f) s inst k =
    match get_w s inst with
    | Some w => run_chain beh (dispatchF beh f) s (chain w k) inst k
    | None => (s, [DProto inst k])
    end.
Proof. exact dispatchF_unfold. Qed.
Theorem C15_nested_dispatch_is_a_dispatch :
  forall beh f s inst k0 i k sub,
    In (DNest i k sub) (snd (dispatchF beh (S f) s inst k0)) -> exists s', sub = snd (dispatchF beh f s' i k).
Proof. exact nested_is_dispatch. Qed.
Theorem C15_nested_dispatch_does_not_disturb_the_outer_chain :
  forall beh f s inst k w,
    get_w s inst = Some w -> exists suf, chain w k = calls (snd (dispatchF beh (S f) s inst k)) ++ suf.
Proof. exact dispatchF_calls_prefix. Qed.

(** the fuel is not a restriction: once no nesting (at any depth) ran out of it, any larger fuel gives the same
    result -- the harness compares only such results *)
Theorem C15_fuel_irrelevant :
  forall beh f n s inst k, complete (snd (dispatchF beh f s inst k)) = true ->
    dispatchF beh (n + f) s inst k = dispatchF beh f s inst k.
Proof. exact fuel_irrelevant_plus. Qed.

(** Non-vacuity: handler 1 unregisters itself while running; handler 0 (older) is not skipped. *)
Example C15_example :
  let beh := fun h n => if Nat.eqb h 1 then (RContinue, [ReUnreg 0 KTimer 1]) else (RContinue, []) in
  snd (d_run beh 8 (d_init 1 3) [DCreate 0; DRegister 0 KTimer 0; DRegister 0 KTimer 1; DRegister 0 KTimer 2;
                              DDispatch 0 KTimer; DDispatch 0 KTimer])
  = [[]; []; []; []; [DCall 0 KTimer 2; DCall 0 KTimer 1; DCall 0 KTimer 0; DProto 0 KTimer];
     [DCall 0 KTimer 2; DCall 0 KTimer 0; DProto 0 KTimer]].
Proof. vm_compute. reflexivity. Qed.

(** Non-vacuity (nested): handler 1, while running for a timer, delivers a packet callback to the same instance
    and unregisters handler 0 from the timer chain; the outer dispatch still runs handler 0. *)
Example C15_example_nested :
  let beh := fun h n => if Nat.eqb h 1 then (RContinue, [ReDisp 0 KPacket; ReUnreg 0 KTimer 0]) else (RContinue, []) in
  snd (d_run beh 8 (d_init 1 3) [DCreate 0; DRegister 0 KTimer 0; DRegister 0 KTimer 1; DRegister 0 KPacket 2; DDispatch 0 KTimer])
  = [[]; []; []; []; [DCall 0 KTimer 1; DNest 0 KPacket [DCall 0 KPacket 2; DProto 0 KPacket]; DCall 0 KTimer 0; DProto 0 KTimer]].
Proof. vm_compute. reflexivity. Qed.

Print Assumptions C15_register.
Print Assumptions C15_dispatcher_unfold.
Print Assumptions C15_fuel_irrelevant.
Print Assumptions C15_nested_dispatch_is_a_dispatch.
Print Assumptions C15_nested_dispatch_does_not_disturb_the_outer_chain.
Print Assumptions C15_unregister.
Print Assumptions C15_create_idempotent.
Print Assumptions C15_create_on_wrapped_is_noop.
Print Assumptions C15_instance_isolation.
Print Assumptions C15_calls_only_own_instance.
Print Assumptions C15_dispatch_runs_snapshot_prefix.
Print Assumptions C15_init_finish_whole_chain.
Print Assumptions C15_interrupt.
Print Assumptions C15_continue_and_none_do_not_stop.
Print Assumptions C15_unwrapped_instance.
