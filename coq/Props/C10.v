(** C10 — the medium loses messages only as configured and never duplicates or revives one. *)
From Coq Require Import List ZArith NArith Bool Reals Lra.
Import ListNotations.
From GS Require Import Num NumR EventLoop Kernel Sim.
From GS Require Import NumZ Sim ExampleKit.
From GS.Proofs Require Import Aux SimP SimP3 TraceSpec DrawSpec.
From GS.Proofs Require Import MoveSpec SchedSpec.

Section C10.
Context {F : Type} (A : ArithOps F) {PS : Type} (cfg : scfg F)
        (react : nat -> PS -> F -> cb F -> PS * list (action F)).

(** The fate of one copy, for every oracle stream: with failure_rate <= 0 no draw is made and
    an in-range copy is always delivered; otherwise exactly one draw — the next of the stream —
    is consumed (in range or not) and the copy is scheduled iff in range and rate < draw.  A
    scheduled copy is scheduled once, for the normal time. *)
Theorem C10_one_copy (h : sstate F PS) now src dst msg :
  transmit A cfg h now src dst msg =
  if fltb A (f0 A) (c_fail cfg)
  then (set_cursor h (S (s_cursor h)),
        if fltb A (c_fail cfg) (nth (s_cursor h) (c_stream cfg) (f0 A)) && in_range A h src dst
        then [(deliver_time A cfg now, EvDeliver src dst msg)] else [])
  else (h, if in_range A h src dst then [(deliver_time A cfg now, EvDeliver src dst msg)] else []).
Proof. apply transmit_spec. Qed.

(** A broadcast on a lossy medium: the k-th copy attempted (node order, sender skipped) consumes
    exactly the k-th next draw, and whether it is delivered depends on its own draw (and range)
    only — the loss of one copy does not affect the others. *)
Theorem C10_broadcast_independent (h : sstate F PS) now src msg dsts :
  fltb A (f0 A) (c_fail cfg) = true ->
  let others := filter (fun d => negb (Nat.eqb d src)) dsts in
  s_cursor (fst (broadcast A cfg h now src msg dsts)) = s_cursor h + length others /\
  snd (broadcast A cfg h now src msg dsts) =
  flat_map (fun kd => if fltb A (c_fail cfg) (nth (s_cursor h + fst kd) (c_stream cfg) (f0 A)) && in_range A h src (snd kd)
                      then [(deliver_time A cfg now, EvDeliver src (snd kd) msg)] else [])
           (combine (seq 0 (length others)) others).
Proof. apply broadcast_lossy. Qed.

(** A lost copy never appears later: only send/broadcast requests create delivery events, at
    the moment of the request (C08_only_sender_creates_deliveries), and executing an event never
    draws: the oracle cursor moves only inside transmissions. *)
Theorem C10_only_transmissions_draw (h : sstate F PS) now n a :
  match a with ASend _ _ | ABroadcast _ | ABcastDst _ _ => False | _ => True end ->
  s_cursor (fst (fst (do_action A cfg h now n a))) = s_cursor h.
Proof.
  destruct a; intros Hn; try contradiction; simpl;
    repeat match goal with |- context [if ?b then _ else _] => destruct b; simpl end; reflexivity.
Qed.

(** WHOLE RUNS: the number of values taken from the random stream by a run from build() -- any
    protocol, any bounds, cut anywhere -- is the number of copies attempted by the accepted send and
    broadcast requests of its trace ([copies]: on a lossy medium one per accepted unicast, one per
    other node per accepted broadcast; none on a loss-free medium, none for anything else). *)
Theorem C10_whole_run_draws (c : kcfg F) fuel ps0 :
  let '(s0, i0) := sim_start A cfg ps0 in
  let '(s', items, fin) := k_run A (sim_hooks A cfg react) c fuel s0 in
  s_cursor (k_h s') = attempted A cfg (i0 ++ items).
Proof. exact (whole_run_draws A cfg react c fuel ps0). Qed.

(** WHOLE RUNS: every copy an accepted send / broadcast attempts consumes exactly the next draw on a lossy medium
    and is scheduled iff it is in range and its draw passes; a copy that was not scheduled then is never scheduled
    later (nothing else produces delivery events) -- acceptor of Proofs/SchedSpec.v. *)
Theorem C10_whole_run_scheduling_justified (c : kcfg F) fuel ps0 :
  let '(s0, i0) := sim_start A cfg ps0 in
  let '(s', items, fin) := k_run A (sim_hooks A cfg react) c fuel s0 in
  accept (x_next A cfg) x_ok (x0 A cfg) (i0 ++ items) /\
  after (x_next A cfg) (x0 A cfg) (i0 ++ items) = x_abs (el_now (k_el s')) (k_h s').
Proof. exact (whole_run_scheduled A cfg react c fuel ps0). Qed.

End C10.

(** Rate 1 (or more) with draws in [0,1): nothing is ever delivered; the set of draws that lose
    a copy is exactly [0, rate], whose length is the configured rate for uniform draws. *)
Theorem C10_loss_threshold (f u : R) :
  (fltb R_ops f u = false <-> (u <= f)%R) /\ ((1 <= f)%R -> (u < 1)%R -> fltb R_ops f u = false).
Proof.
  simpl. split; [apply Rltb_false|]. intros H1 H2. apply Rltb_false. lra.
Qed.

(** Non-vacuity: failure rate 1 (integers), draws 0 then 2: the first copy of the broadcast is lost, the
    second survives; two draws consumed. *)
Definition ex10 (n : nat) (ps : unit) (now : Z) (c : cb Z) : unit * list (action Z) :=
  match c, n with CbInit, O => (tt, [ABroadcast 8]) | _, _ => (tt, []) end.
Example C10_example :
  runx (cfgx [HTimer; HComm] 3 [(0, 0, 0)%Z; (0, 0, 0)%Z; (0, 0, 0)%Z] 10%Z 0%Z 1%Z 1%Z 1%Z [] [0%Z; 2%Z]) ex10 None None 20 =
  ([TCb 0 0%Z CbInit; TAct 0 (ABroadcast 8) Ok; TCb 1 0%Z CbInit; TCb 2 0%Z CbInit; TCb 2 0%Z (CbPacket 8);
    TCb 0 0%Z CbFinish; TCb 1 0%Z CbFinish; TCb 2 0%Z CbFinish], true, 2, [(0, 0, 0)%Z; (0, 0, 0)%Z; (0, 0, 0)%Z]).
Proof. vm_compute. reflexivity. Qed.

Print Assumptions C10_one_copy.
Print Assumptions C10_broadcast_independent.
Print Assumptions C10_only_transmissions_draw.
Print Assumptions C10_loss_threshold.
Print Assumptions C10_whole_run_draws.
Print Assumptions C10_whole_run_scheduling_justified.
