(** C03 — events due at the same instant run in the order they were requested (FIFO). *)
From Coq Require Import List ZArith NArith Bool.
Import ListNotations.
From Coq Require Import Permutation.
From GS Require Import HeapLoop Num NumZ EventLoop Kernel Heap.
From GS.Proofs Require Import HeapLoopP Aux EventLoopP KernelP KernelP3 HeapP HeapB HeapEvP.

(** Requests accepted later carry larger sequence numbers. *)
Theorem C03_sequence_is_scheduling_order :
  forall (F : Type) (A : ArithOps F) (P : Type) (l l' : eloop F P) (ts : F) (p : P),
    el_schedule A l ts p = Some l' ->
    el_q l' = el_q l ++ [mkEv ts (el_seq l) p] /\ el_seq l' = N.succ (el_seq l) /\ el_now l' = el_now l.
Proof. intros F A P l l' ts p. apply el_schedule_seq. Qed.

(** For every multiset of timestamps, every order of insertion and every interleaving with
    removals: in the order of popping, events with equal timestamps appear in increasing
    sequence number, i.e. in the order they were scheduled. *)
Theorem C03_fifo :
  forall (F : Type) (A : ArithOps F), OrderLaws A -> forall (P : Type) (l : eloop F P) (ops : list (el_op F P)),
    el_inv A l ->
    let '(_, pop, _, _) := el_ghost A l ops in
    forall p1 x p2 y p3, pop = p1 ++ x :: p2 ++ y :: p3 ->
      feqb A (ev_ts x) (ev_ts y) = true -> (ev_seq x < ev_seq y)%N.
Proof. intros F A OL P. exact (el_fifo A OL). Qed.

(** Why the repo's key makes this hold for *any* correct heap: the heap contract ("the popped
    element is queued and no queued element is less than it") determines the popped element
    uniquely, because distinct sequence numbers make the order total. *)
Theorem C03_heap_contract_determines_pop :
  forall (F : Type) (A : ArithOps F), OrderLaws A -> forall (P : Type) (m : event F P) (q : list (event F P)) (e : event F P),
    NoDup (map (@ev_seq F P) (m :: q)) ->
    In e (m :: q) -> (forall e', In e' (m :: q) -> ev_lt A e' e = false) ->
    e = q_min A m q.
Proof. intros F A OL P. exact (min_unique A OL). Qed.

(** Same timestamp: the event order is the scheduling order. *)
Theorem C03_ties_by_sequence :
  forall (F : Type) (A : ArithOps F) (P : Type) (a b : event F P),
    feqb A (ev_ts a) (ev_ts b) = true -> ev_lt A a b = N.ltb (ev_seq a) (ev_seq b).
Proof. intros F A P a b. apply ev_lt_same_ts. Qed.

(** Stronger form: over every history the popped events are STRICTLY increasing in
    (timestamp, sequence number) — later in time, or same instant and scheduled later. *)
Theorem C03_pops_strictly_sorted :
  forall (F : Type) (A : ArithOps F), OrderLaws A -> forall (P : Type) (l : eloop F P) (ops : list (el_op F P)),
    el_inv A l ->
    let '(_, pop, _, _) := el_ghost A l ops in
    chain_sorted A None pop /\
    (forall p1 x p2 y p3, pop = p1 ++ x :: p2 ++ y :: p3 -> ev_lt A x y = true).
Proof.
  intros F A OL P l ops Hinv. pose proof (el_pops_sorted A OL l ops None Hinv I) as H.
  destruct (el_ghost A l ops) as [[[a b] c] d]. split; [exact H|]. apply (chain_sorted_pairwise A OL None). exact H.
Qed.

(** Whole simulations, every handlers and every protocol program: the events executed in a run
    are strictly increasing in (timestamp, sequence number).  Since a request accepted later gets
    a larger sequence number, events due at the same instant run in the order they were
    requested; since the delivery time is send time (+ a fixed delay) and + delay is monotone,
    messages on one link are received in the order sent, and same-instant timers of a node fire
    in the order set. *)
Theorem C03_whole_runs_fifo :
  forall (F : Type) (A : ArithOps F), OrderLaws A -> forall (P H T : Type) (hk : hooks F P H T) (c : kcfg F)
         (fuel : nat) (s : kstate F P H) (lo : option (event F P)),
    k_inv A s -> lb_opt A (k_el s) lo ->
    let '(_, items, _) := k_run A hk c fuel s in chain_sorted A lo (exec_events items).
Proof.
  intros F A OL P H T hk c fuel s lo Hinv Hlb. pose proof (k_run_exec_sorted A OL hk c fuel s lo Hinv Hlb) as Hs.
  destruct (k_run A hk c fuel s) as [[s' items] fin]. exact (proj1 Hs).
Qed.

(** Consequence for links and timers: if x and y were both executed and x precedes y in
    (time, request order) — e.g. x was sent earlier than y on the same link with the fixed delay,
    or x was set before y for the same instant — then y is never executed before x. *)
Theorem C03_earlier_request_runs_first :
  forall (F : Type) (A : ArithOps F), OrderLaws A -> forall (P H T : Type) (hk : hooks F P H T) (c : kcfg F)
         (fuel : nat) (s : kstate F P H) (lo : option (event F P)),
    k_inv A s -> lb_opt A (k_el s) lo ->
    let '(_, items, _) := k_run A hk c fuel s in
    forall p1 y p2 x p3, exec_events items = p1 ++ y :: p2 ++ x :: p3 -> ev_lt A x y = false.
Proof.
  intros F A OL P H T hk c fuel s lo Hinv Hlb. pose proof (k_run_exec_sorted A OL hk c fuel s lo Hinv Hlb) as Hs.
  destruct (k_run A hk c fuel s) as [[s' items] fin]. destruct Hs as [Hs _].
  intros p1 y p2 x p3 Heq. eapply (sorted_order_is_pop_order A OL); eassumption.
Qed.

Theorem C03_requests_numbered_in_order :
  forall (F : Type) (A : ArithOps F) (P T : Type) (l : eloop F P) (reqs : list (F * P)),
    sched_seqs (snd (sched_all A (T:=T) l reqs)) =
    map N.of_nat (seq (N.to_nat (el_seq l)) (length (sched_seqs (snd (sched_all A (T:=T) l reqs))))).
Proof. intros. apply (proj1 (sched_all_seqs A l reqs)). Qed.

(** a later send on the same link is not due earlier: the delay is added monotonically *)
Theorem C03_fixed_delay_is_monotone :
  forall (F : Type) (A : ArithOps F), OrderLaws A -> forall (t1 t2 d : F),
    fleb A t1 t2 = true -> fleb A (fadd A t1 d) (fadd A t2 d) = true.
Proof. intros F A OL t1 t2 d. apply (add_mono_l A OL). Qed.

(** The transcribed [heapq] ([Heap.v]) ordered by [Event.__lt__] meets the contract: whatever the
    layout of the array, if it satisfies the heap condition and holds the queued events, then
    [heappop] returns the very event the model selects from the queue kept in scheduling order
    (earliest timestamp, ties first in first out) and leaves exactly the others. *)
Theorem C03_heapq_pop_is_the_selected_event :
  forall (F : Type) (A : ArithOps F), OrderLaws A -> forall (P : Type)
         (h h' : list (event F P)) (m x : event F P) (q : list (event F P)),
    heap_inv (ev_lt A) h -> NoDup (map (@ev_seq F P) h) -> Permutation (x :: q) h ->
    heappop (ev_lt A) h = Some (m, h') ->
    m = q_min A x q /\ Permutation (x :: q) (m :: h').
Proof. intros F A OL P h h' m x q. apply (heappop_is_selected A OL). Qed.

(** nothing in an array with the heap condition is [ev_lt] its first cell *)
Theorem C03_heapq_root_is_least :
  forall (F : Type) (A : ArithOps F), OrderLaws A -> forall (P : Type) (h : list (event F P)) (r : event F P),
    heap_inv (ev_lt A) h -> nth_error h 0 = Some r -> forall e, In e h -> ev_lt A e r = false.
Proof. intros F A OL P. apply (heap_root_is_least A OL). Qed.

(** pushing an event keeps the heap condition (CPython's [_siftdown] from the last cell), for every
    array and every event; with [C02_heapq_push_conserves] the array after a push is a heap of
    exactly the old events and the new one *)
Theorem C03_heapq_push_keeps_heap_condition :
  forall (F : Type) (A : ArithOps F), OrderLaws A -> forall (P : Type) (h : list (event F P)) (e : event F P),
    heap_inv (ev_lt A) h -> heap_inv (ev_lt A) (heappush (ev_lt A) h e).
Proof. intros F A OL P. apply (heappush_keeps_heap A OL). Qed.

(** popping keeps the heap condition (CPython's [_siftup] from the root), for every array *)
Theorem C03_heapq_pop_keeps_heap_condition :
  forall (F : Type) (A : ArithOps F), OrderLaws A -> forall (P : Type) (h h' : list (event F P)) (m : event F P),
    heap_inv (ev_lt A) h -> heappop (ev_lt A) h = Some (m, h') -> heap_inv (ev_lt A) h'.
Proof. intros F A OL P. apply (heappop_keeps_heap A OL). Qed.

(** six same-instant events and two earlier ones pushed through the transcribed heap: the heap
    condition holds after every push and the pops come out by time, ties in request order *)
Example C03_heapq_example :
  let evs := map (fun k => mkEv (if Nat.ltb 5 k then 3%Z else 5%Z) (N.of_nat k) k) (seq 0 8) in
  let h := fold_left (heappush (ev_lt Z_ops)) evs [] in
  heap_invb (ev_lt Z_ops) h = true /\
  (fix drain (n : nat) (h : list (event Z nat)) : list nat :=
     match n with 0 => [] | S n' =>
       match heappop (ev_lt Z_ops) h with None => [] | Some (m, h') => ev_pl m :: drain n' h' end end) 9 h
  = [6; 7; 0; 1; 2; 3; 4; 5].
Proof. vm_compute. split; reflexivity. Qed.

(** the premises of [C03_heapq_pop_is_the_selected_event] are met by that array: it has the heap
    condition (the computed check is sound for it), distinct sequence numbers, and holds the events *)
Example C03_heapq_example_premises :
  let evs := map (fun k => mkEv (if Nat.ltb 5 k then 3%Z else 5%Z) (N.of_nat k) k) (seq 0 8) in
  let h := fold_left (heappush (ev_lt Z_ops)) evs [] in
  heap_inv (ev_lt Z_ops) h /\ NoDup (map (@ev_seq Z nat) h) /\ Permutation evs h.
Proof.
  cbv zeta. split; [apply heap_invb_sound; vm_compute; reflexivity|]. split.
  - vm_compute. repeat (constructor; [simpl; intuition discriminate|]). constructor.
  - rewrite <- fold_left_rev_right.
    assert (H : forall l : list (event Z nat), Permutation l (fold_right (fun y x => heappush (ev_lt Z_ops) x y) [] l)).
    { induction l as [|e l IH]; simpl; [constructor|].
      eapply perm_trans; [apply perm_skip, IH|]. apply Permutation_sym, heappush_perm. }
    eapply perm_trans; [apply Permutation_rev|]. apply H.
Qed.

Example C03_example :
  snd (el_run Z_ops (el_init Z_ops)
        [OpSchedule 5%Z 0%nat; OpSchedule 5%Z 1%nat; OpSchedule 5%Z 2%nat; OpSchedule 5%Z 3%nat; OpSchedule 5%Z 4%nat;
         OpSchedule 5%Z 5%nat; OpPop; OpPop; OpPop; OpPop; OpPop; OpPop])
  = [RScheduled; RScheduled; RScheduled; RScheduled; RScheduled; RScheduled;
     RPopped 5%Z 0%nat; RPopped 5%Z 1%nat; RPopped 5%Z 2%nat; RPopped 5%Z 3%nat; RPopped 5%Z 4%nat; RPopped 5%Z 5%nat].
Proof. vm_compute. reflexivity. Qed.

(** The event loop as the code keeps it -- an array handled by heapq.heappush / heapq.heappop, peek
    reading cell 0 ([HeapLoop.v], CPython's heapq transcribed in [Heap.v]) -- answers EVERY history of
    schedule / pop / peek / clear / len / now calls exactly as the list-and-selection model the
    theorems above are about; so they hold of the heap-based loop as well. *)
Theorem C03_heap_based_loop_answers_as_the_model :
  forall (F : Type) (A : ArithOps F), OrderLaws A -> forall (P : Type) (ops : list (el_op F P)),
    snd (hl_run A (hl_init A) ops) = snd (el_run A (el_init A) ops).
Proof. intros F A OL P. exact (hl_run_from_init A OL). Qed.

Print Assumptions C03_sequence_is_scheduling_order.
Print Assumptions C03_fifo.
Print Assumptions C03_heap_contract_determines_pop.
Print Assumptions C03_ties_by_sequence.
Print Assumptions C03_pops_strictly_sorted.
Print Assumptions C03_whole_runs_fifo.
Print Assumptions C03_earlier_request_runs_first.
Print Assumptions C03_requests_numbered_in_order.
Print Assumptions C03_fixed_delay_is_monotone.
Print Assumptions C03_heapq_pop_is_the_selected_event.
Print Assumptions C03_heapq_root_is_least.
Print Assumptions C03_heapq_push_keeps_heap_condition.
Print Assumptions C03_heap_based_loop_answers_as_the_model.
Print Assumptions C03_heapq_pop_keeps_heap_condition.
