(** C08 — a message in range is delivered exactly once, intact, to exactly its addressees. *)
From Coq Require Import List ZArith NArith Bool.
Import ListNotations.
From GS Require Import Num EventLoop Kernel Sim.
From GS Require Import NumZ Sim ExampleKit.
From GS.Proofs Require Import Aux SimP SimP3 TraceSpec TimerSpec.
From GS.Proofs Require Import MoveSpec SchedSpec.
From Coq Require Import Permutation.
From GS.Proofs Require Import KernelP DeliverOnce.

Section C08.
Context {F : Type} (A : ArithOps F) {PS : Type} (cfg : scfg F)
        (react : nat -> PS -> F -> cb F -> PS * list (action F)).

(** Unicast: sending to oneself, to an unknown node or without a destination raises, delivers
    nothing and changes nothing; otherwise it is one transmission to the named node only. *)
Theorem C08_unicast (h : sstate F PS) now n msg dst :
  has_comm cfg = true ->
  do_action A cfg h now n (ASend msg dst) =
  match dst with
  | None => (h, [], ErrComm)
  | Some d =>
      if Nat.eqb d n then (h, [], ErrComm)
      else if Nat.ltb d (c_nnodes cfg)
           then (fst (transmit A cfg h now n d msg), snd (transmit A cfg h now n d msg), Ok)
           else (h, [], ErrComm)
  end.
Proof. apply send_spec. Qed.

(** One transmission on a loss-free medium to a node in range: exactly one delivery event, for
    that node, at send time + delay (send time when the delay is not positive), payload unchanged. *)
Theorem C08_one_copy (h : sstate F PS) now src dst msg :
  fltb A (f0 A) (c_fail cfg) = false -> in_range A h src dst = true ->
  transmit A cfg h now src dst msg = (h, [(deliver_time A cfg now, EvDeliver src dst msg)]).
Proof. intros Hf Hr. rewrite transmit_spec, Hf, Hr. reflexivity. Qed.

(** Broadcast on a loss-free medium: one copy for every OTHER node in range, in node order,
    none for the sender, all at send time + delay, payload unchanged; state unchanged. *)
Theorem C08_broadcast (h : sstate F PS) now n msg :
  has_comm cfg = true -> fltb A (f0 A) (c_fail cfg) = false ->
  do_action A cfg h now n (ABroadcast msg) =
  (h, map (fun d => (deliver_time A cfg now, EvDeliver n d msg))
          (filter (fun d => negb (Nat.eqb d n) && in_range A h n d) (seq 0 (c_nnodes cfg))), Ok).
Proof. apply broadcast_spec. Qed.

(** A raw BROADCAST command that carries a destination field: the destination is ignored (it is
    still a broadcast to everybody else), except that naming oneself raises. *)
Theorem C08_broadcast_with_destination (h : sstate F PS) now n msg d :
  has_comm cfg = true ->
  do_action A cfg h now n (ABcastDst msg d) =
  if Nat.eqb d n then (h, [], ErrComm) else do_action A cfg h now n (ABroadcast msg).
Proof. intros Hc. simpl. rewrite Hc. simpl. destruct (Nat.eqb d n); reflexivity. Qed.

(** A delivery event calls handle_packet on its destination only, once, with the payload it
    carries, at the event's time. *)
Theorem C08_delivery_callback (h : sstate F PS) now src dst msg :
  cbs_of (snd (sim_exec A cfg react h now (EvDeliver src dst msg))) =
  if (dst <? length (s_ps h))%nat then [(dst, pnow A cfg now, CbPacket msg)] else [].
Proof. apply (sim_exec_cbs A cfg react h now (EvDeliver src dst msg)). Qed.

(** Nothing else creates delivery events: every request of every action is either a timer of
    the requesting node or a delivery from it. *)
Theorem C08_only_sender_creates_deliveries (h : sstate F PS) now n a :
  forall ts p, In (ts, p) (snd (fst (do_action A cfg h now n a))) ->
    (exists name id, p = EvTimer n name id) \/ (exists d msg, p = EvDeliver n d msg /\ d <> n).
Proof.
  destruct a as [name ts0|name|msg dst|msg|msg dst|p0|p0|s0|r0|b0]; simpl.
  - destruct (negb (has_timer cfg)); [intros ? ? []|]. destruct (fltb A ts0 now); [intros ? ? []|].
    simpl. intros ts' p' [[= <- <-]|[]]. left. eauto.
  - destruct (negb (has_timer cfg)); intros ? ? [].
  - destruct (negb (has_comm cfg)); [intros ? ? []|]. destruct dst as [d|]; [|intros ? ? []].
    destruct (Nat.eqb d n) eqn:Ed; [intros ? ? []|]. destruct (Nat.ltb d (c_nnodes cfg)); [|intros ? ? []].
    pose proof (transmit_reqs A cfg h now n d msg) as Ht. destruct (transmit A cfg h now n d msg) as [h1 q]. simpl.
    destruct Ht as ([->| ->] & _); [intros ? ? []|]. intros ts' p' [[= <- <-]|[]]. right. exists d, msg. split; [reflexivity|].
    apply Nat.eqb_neq. exact Ed.
  - destruct (negb (has_comm cfg)); [intros ? ? []|].
    pose proof (broadcast_reqs A cfg h now n msg (seq 0 (c_nnodes cfg))) as Hb.
    destruct (broadcast A cfg h now n msg (seq 0 (c_nnodes cfg))) as [h1 q]. simpl.
    destruct Hb as (Hb & _). intros ts' p' Hin. destruct (Hb _ Hin) as (d & _ & Hne & [= -> ->]). right. eauto.
  - destruct (negb (has_comm cfg)); [intros ? ? []|]. destruct (Nat.eqb dst n); [intros ? ? []|].
    pose proof (broadcast_reqs A cfg h now n msg (seq 0 (c_nnodes cfg))) as Hb.
    destruct (broadcast A cfg h now n msg (seq 0 (c_nnodes cfg))) as [h1 q]. simpl.
    destruct Hb as (Hb & _). intros ts' p' Hin. destruct (Hb _ Hin) as (d & _ & Hne & [= -> ->]). right. eauto.
  - destruct (negb (has_mob cfg)); intros ? ? [].
  - destruct (negb (has_mob cfg)); intros ? ? [].
  - destruct (negb (has_mob cfg)); intros ? ? [].
  - destruct (fltb A r0 (f0 A)); [intros ? ? []|]. destruct (negb (has_comm cfg)); intros ? ? [].
  - intros ? ? [].
Qed.

(** WHOLE RUNS (every run is accepted by the acceptor of Proofs/TimerSpec.v, see
    C07_whole_run_refines_timer_table): a packet callback happens only as the very next thing
    after the execution of a delivery event addressed to that node with that message, at that
    event's time; and every executed delivery event for an existing node is immediately followed
    by exactly that callback.  With C02 (every accepted event is executed exactly once) and
    C08_one_copy (one delivery event per in-range copy) this is "delivered exactly once". *)
Theorem C08_packet_callback_only_from_delivery_event x0 pre n t msg post :
  accept (t_next A cfg) t_ok x0 (pre ++ KUser (TCb n t (CbPacket msg)) :: post) -> t_exp x0 = None ->
  exists pre' i ts sq src, pre = pre' ++ [KExec i ts sq (EvDeliver src n msg)] /\ t = pnow A cfg ts.
Proof. exact (packet_callback_has_cause A cfg x0 pre n t msg post). Qed.

Theorem C08_delivery_event_calls_back x0 pre i ts sq src dst msg post :
  accept (t_next A cfg) t_ok x0 (pre ++ KExec i ts sq (EvDeliver src dst msg) :: post) -> dst < c_nnodes cfg ->
  (post = [] /\ t_exp (after (t_next A cfg) x0 (pre ++ [KExec i ts sq (EvDeliver src dst msg)])) = Some (dst, pnow A cfg ts, CbPacket msg)) \/
  exists post', post = KUser (TCb dst (pnow A cfg ts) (CbPacket msg)) :: post'.
Proof.
  intros Hacc Hn. apply (cause_fires A cfg x0 pre _ post dst (pnow A cfg ts) (CbPacket msg) Hacc).
  simpl. apply Nat.ltb_lt in Hn. rewrite Hn. reflexivity.
Qed.

(** WHOLE RUNS: every delivery event of a run is one that an accepted unicast / broadcast of the trace calls for --
    one per addressee (the named node; every OTHER node for a broadcast, never the sender), due at send time + delay,
    in request order -- and every such request is answered by a scheduling item before the next event runs
    (acceptor of Proofs/SchedSpec.v, stated in full as C09_whole_run_scheduling_justified).  With C02 (each accepted
    event runs exactly once) and the callback-cause theorems above: delivered exactly once. *)
Theorem C08_whole_run_scheduling_justified (c : kcfg F) fuel ps0 :
  let '(s0, i0) := sim_start A cfg ps0 in
  let '(s', items, fin) := k_run A (sim_hooks A cfg react) c fuel s0 in
  accept (x_next A cfg) x_ok (x0 A cfg) (i0 ++ items) /\
  after (x_next A cfg) (x0 A cfg) (i0 ++ items) = x_abs (el_now (k_el s')) (k_h s').
Proof. exact (whole_run_scheduled A cfg react c fuel ps0). Qed.

(** DELIVERED EXACTLY ONCE.  For a run from build() that leaves no delivery in the queue (for instance one that ran
    to exhaustion), the packet callbacks of the run are, as a multiset, exactly the delivery events the run
    scheduled for existing nodes: each on its addressee [d], with its payload [m], at the time its provider reports
    for the event's due time -- none missing, none twice, none invented.  ([cb_of_key (ts, EvDeliver s d m)] is
    [(d, pnow ts, m)]; which deliveries get scheduled is C08_whole_run_scheduling_justified.) *)
Theorem C08_delivered_exactly_once (OL : OrderLaws A) (c : kcfg F) fuel ps0 :
  let '(s0, i0) := sim_start A cfg ps0 in
  let '(s', items, fin) := k_run A (sim_hooks A cfg react) c fuel s0 in
  flat_map (cb_of_key A cfg) (map key (el_q (k_el s'))) = [] ->
  Permutation (flat_map (cb_of_key A cfg) (scheds items)) (packet_cbs items).
Proof. exact (delivered_exactly_once A OL cfg react c fuel ps0). Qed.

End C08.

(** Non-vacuity: three nodes in range, delay 2: a unicast reaches only its addressee, a broadcast every
    other node, each once at send time + delay; self / unknown / missing destinations raise. *)
Definition ex8 (n : nat) (ps : unit) (now : Z) (c : cb Z) : unit * list (action Z) :=
  match c, n with
  | CbInit, O => (tt, [ASend 7 (Some 1); ABroadcast 8; ASend 9 (Some 0); ASend 9 (Some 5); ASend 9 None])
  | _, _ => (tt, [])
  end.
Example C08_example :
  fst (fst (fst (runx (cfgx [HTimer; HComm] 3 [(0, 0, 0)%Z; (0, 0, 0)%Z; (0, 0, 0)%Z] 10%Z 2%Z 0%Z 1%Z 1%Z [] []) ex8 None None 20))) =
  [TCb 0 0%Z CbInit; TAct 0 (ASend 7 (Some 1)) Ok; TAct 0 (ABroadcast 8) Ok; TAct 0 (ASend 9 (Some 0)) ErrComm;
   TAct 0 (ASend 9 (Some 5)) ErrComm; TAct 0 (ASend 9 None) ErrComm; TCb 1 0%Z CbInit; TCb 2 0%Z CbInit;
   TCb 1 2%Z (CbPacket 7); TCb 1 2%Z (CbPacket 8); TCb 2 2%Z (CbPacket 8);
   TCb 0 2%Z CbFinish; TCb 1 2%Z CbFinish; TCb 2 2%Z CbFinish].
Proof. vm_compute. reflexivity. Qed.

Print Assumptions C08_unicast.
Print Assumptions C08_one_copy.
Print Assumptions C08_broadcast.
Print Assumptions C08_broadcast_with_destination.
Print Assumptions C08_delivery_callback.
Print Assumptions C08_only_sender_creates_deliveries.
Print Assumptions C08_packet_callback_only_from_delivery_event.
Print Assumptions C08_delivery_event_calls_back.
Print Assumptions C08_whole_run_scheduling_justified.
Print Assumptions C08_delivered_exactly_once.
