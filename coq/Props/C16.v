(** C16 — a mission always targets a valid waypoint and its status flags stay consistent. *)
From Coq Require Import List ZArith Bool.
Import ListNotations.
From GS Require Import Num NumZ Mission.
From GS.Proofs Require Import MissionP.

(** In every state reachable from a fresh plugin by any history of start (non-empty mission) /
    stop / set-waypoint / set-reversed / telemetry, for every loop mode, tolerance and number
    type: idle <-> no mission <-> no current waypoint, never reversed while idle; while active the
    index is a valid index, reversed only in REVERSE mode, and the last goto issued by the
    plugin is to exactly mission[current]. *)
Theorem C16_invariant :
  forall (F : Type) (A : ArithOps F) (cfg : mconfig F) (ops : list (mop F)),
    Forall (@op_ok F) ops -> m_inv cfg (fst (m_run A cfg (m_init (F:=F)) ops)).
Proof. intros F A cfg ops Hok. apply m_run_inv; [apply m_init_inv|exact Hok]. Qed.

Theorem C16_invariant_step :
  forall (F : Type) (A : ArithOps F) (cfg : mconfig F) (s : mstate F) (o : mop F),
    m_inv cfg s -> op_ok o -> m_inv cfg (fst (fst (m_step A cfg s o))).
Proof. intros F A cfg. exact (m_step_inv A cfg). Qed.

(** Invalid requests raise the plugin's exception, issue no command and change nothing; and they
    are exactly: set-waypoint without a mission or out of bounds, set-reversed without a mission
    or outside REVERSE mode. *)
Theorem C16_errors_change_nothing :
  forall (F : Type) (A : ArithOps F) (cfg : mconfig F) (s s' : mstate F) (o : mop F) (c : list (mcmd F)),
    m_step A cfg s o = (s', c, MErr) -> s' = s /\ c = [].
Proof. intros F A cfg s s' o c. apply m_err_frame. Qed.

Theorem C16_errors_iff :
  forall (F : Type) (A : ArithOps F) (cfg : mconfig F) (s : mstate F) (o : mop F),
    snd (m_step A cfg s o) = MErr <->
    match o with
    | MSetWaypoint w => match m_mission s with None => True | Some m => (w < 0)%Z \/ (Z.of_nat (length m) <= w)%Z end
    | MSetReversed _ => m_mission s = None \/ mc_loop cfg <> LoopReverse
    | _ => False
    end.
Proof. intros. apply m_err_iff. Qed.

(** Telemetry outside the tolerance changes nothing and issues no command. *)
Theorem C16_telemetry_not_reached :
  forall (F : Type) (A : ArithOps F) (cfg : mconfig F) (s : mstate F) (pos : vec3 F),
    reached A cfg s pos = false -> m_step A cfg s (MTelemetry pos) = (s, [], MOk).
Proof. intros. apply telemetry_not_reached; assumption. Qed.

(** Visiting order per loop mode: stop at the end / restart from the first / bounce. *)
Theorem C16_order_no :
  forall (F : Type) (cfg : mconfig F) (m : list (vec3 F)) (i : nat) lg,
    mc_loop cfg = LoopNo -> m <> [] -> i < length m ->
    progress cfg (mkM (Some m) false false (Some i) lg) =
    if (S i <? length m)%nat then mkM (Some m) false false (Some (S i)) lg else stop (mkM (Some m) false false (Some i) lg).
Proof. intros. apply order_no; assumption. Qed.

Theorem C16_order_restart :
  forall (F : Type) (cfg : mconfig F) (m : list (vec3 F)) (i : nat) lg,
    mc_loop cfg = LoopRestart -> m <> [] -> i < length m ->
    progress cfg (mkM (Some m) false false (Some i) lg) = mkM (Some m) false false (Some (S i mod length m)) lg.
Proof. intros. apply order_restart; assumption. Qed.

Theorem C16_order_reverse :
  forall (F : Type) (cfg : mconfig F) (m : list (vec3 F)) (i : nat) (rev : bool) lg,
    mc_loop cfg = LoopReverse -> m <> [] -> i < length m ->
    progress cfg (mkM (Some m) rev false (Some i) lg) =
    if rev then match i with
                | S j => mkM (Some m) true false (Some j) lg
                | O => mkM (Some m) false false (Some 0) lg
                end
    else if (S i <? length m)%nat then mkM (Some m) false false (Some (S i)) lg
         else mkM (Some m) true false (Some (length m - 2)) lg.
Proof. intros. apply order_reverse; assumption. Qed.

(** Non-vacuity: REVERSE with a single waypoint (the repaired defect) on the integer instance. *)
Example C16_example :
  map (fun x => snd x)
      (snd (m_run Z_ops (@mkMCfg Z 5%Z LoopReverse 1%Z) (m_init (F:=Z))
              [MStart [(1, 2, 3)%Z]; MTelemetry (1, 2, 3)%Z; MTelemetry (1, 2, 3)%Z; MTelemetry (9, 9, 9)%Z; MSetWaypoint 1%Z]))
  = [(Some 0, false, false); (Some 0, true, false); (Some 0, false, false); (Some 0, false, false); (Some 0, false, false)].
Proof. vm_compute. reflexivity. Qed.

Print Assumptions C16_invariant.
Print Assumptions C16_invariant_step.
Print Assumptions C16_errors_change_nothing.
Print Assumptions C16_errors_iff.
Print Assumptions C16_telemetry_not_reached.
Print Assumptions C16_order_no.
Print Assumptions C16_order_restart.
Print Assumptions C16_order_reverse.
