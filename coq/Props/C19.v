(** C19 — the camera reports exactly the other nodes inside its cone and never fails. *)
From Coq Require Import List Bool Arith Reals.
Import ListNotations.
From GS Require Import Num NumR Camera.
From Coq Require Import ZArith.
From GS Require Import NumZ.
From GS.Proofs Require Import CameraP.

(** Taking a picture succeeds for every geometry — on the axis, exactly opposite, at the camera's
    own position — on every number type whose comparison is a total order with -1 <= 1 (doubles):
    the cosine handed to acos is clamped into its domain with the very comparisons acos' domain
    check uses. *)
Theorem C19_never_fails :
  forall (F : Type) (A : ArithOps F), OrderLaws A -> fleb A (fneg A (f1 A)) (f1 A) = true ->
  forall cv th reach cam me idx nodes, picture_from A cv th reach cam me idx nodes <> None.
Proof. intros F A OL H. apply (picture_never_fails A OL H). Qed.

Theorem C19_clamp_in_domain :
  forall (F : Type) (A : ArithOps F), OrderLaws A -> fleb A (fneg A (f1 A)) (f1 A) = true ->
  forall x, fltb A (clamp1 A x) (fneg A (f1 A)) = false /\ fltb A (f1 A) (clamp1 A x) = false.
Proof. intros F A OL H. apply (clamp1_in_domain A OL H). Qed.

(** A picture has one entry per OTHER node that passes the cone test, in node order, carrying
    that node's position; the camera's own node is never reported. *)
Theorem C19_entries :
  forall (F : Type) (A : ArithOps F) cv th reach cam me idx nodes l,
    picture_from A cv th reach cam me idx nodes = Some l ->
    forall i p, In (i, p) l <->
      exists k, nth_error nodes k = Some p /\ i = idx + k /\ i <> me /\ detects A cv th reach cam p = Some true.
Proof. intros F A. apply picture_entries. Qed.

(** Over the reals: the camera direction is a unit vector, so the clamp is the identity on the
    normalised dot product; ... *)
Theorem C19_axis_is_unit (c : camcfg R) :
  let v := cam_vector R_ops c in (vx v * vx v + vy v * vy v + vz v * vz v = 1)%R.
Proof. apply cam_vector_unit. Qed.

Theorem C19_clamp_identity (x : R) : (-1 <= x <= 1)%R -> clamp1 R_ops x = x.
Proof. apply clamp1_id. Qed.

(** ... inside the reach a node is reported iff the cosine of the angle between the axis and its
    direction is at least cos(theta + 1e-6), i.e. the deviation is at most the cone angle (plus
    the 1e-6 tolerance of the code) — sound and complete; ... *)
Theorem C19_cone_test (dp theta : R) :
  (-1 <= dp <= 1)%R -> (0 <= theta + 1 / 1000000 <= PI)%R ->
  (negb (Rltb theta (acos dp - 1 / 1000000)) = true <-> (cos (theta + 1 / 1000000) <= dp)%R).
Proof. apply cone_test_R. Qed.

(** ... and the answer is unchanged when the whole scene is translated. *)
Theorem C19_translation_invariant cv th reach (cam other t : vec3 R) :
  detects R_ops cv th reach (vx cam + vx t, vy cam + vy t, vz cam + vz t)%R (vx other + vx t, vy other + vy t, vz other + vz t)%R
  = detects R_ops cv th reach cam other.
Proof. apply detects_translation_invariant. Qed.

(** The full characterisation of the model's cone test over the reals (Cauchy-Schwarz makes the
    clamp the identity): beyond the reach a node is never reported; at the camera's own position
    always; otherwise iff the cosine of its deviation from the (unit) axis is at least
    cos(theta + 1e-6), i.e. iff it deviates by at most the cone angle (+ the code's tolerance).
    Sound and complete, for every orientation, cone angle up to pi and placement. *)
Theorem C19_cone_sound_and_complete (cv cam other : vec3 R) (theta reach : R) :
  dot3 cv cv = 1%R -> (0 <= theta + 1 / 1000000 <= PI)%R ->
  let r := rel3 cam other in
  let d := sqrt (dot3 r r) in
  detects R_ops cv theta reach cam other =
  Some (if Rltb reach d then false
        else if Rltb 0 d then (if Rle_dec (cos (theta + 1 / 1000000)) (dot3 cv r / d) then true else false)
        else true).
Proof. apply detects_cone_R. Qed.

(** Non-vacuity (integers; the trigonometric functions of this instance are constants, so only reach and the
    entry format are exercised): the node within reach is listed with its identifier and position, the
    camera's own node and the one out of reach are not. *)
Example C19_example :
  take_picture Z_ops (mkCam 10 90 0 0)%Z 0 [(0, 0, 0)%Z; (1, 0, 0)%Z; (100, 0, 0)%Z] = Some [(1, (1, 0, 0)%Z)].
Proof. vm_compute. reflexivity. Qed.

Print Assumptions C19_never_fails.
Print Assumptions C19_clamp_in_domain.
Print Assumptions C19_entries.
Print Assumptions C19_axis_is_unit.
Print Assumptions C19_clamp_identity.
Print Assumptions C19_cone_test.
Print Assumptions C19_translation_invariant.
Print Assumptions C19_cone_sound_and_complete.
