(** C02 — every scheduled event runs exactly once; nothing is lost, duplicated or invented. *)
From Coq Require Import List ZArith NArith Bool Permutation.
Import ListNotations.
From GS Require Import HeapLoop Num NumZ EventLoop Kernel Heap.
From GS.Proofs Require Import HeapLoopP Aux EventLoopP KernelP DriveP HeapP.

(** Conservation over every history of schedule / pop / peek / clear / len operations: what
    was queued plus what was accepted is, as a multiset, what was popped plus what was cleared
    plus what is still queued. *)
Theorem C02_conservation :
  forall (F : Type) (A : ArithOps F), OrderLaws A -> forall (P : Type) (l : eloop F P) (ops : list (el_op F P)),
    el_inv A l ->
    let '(acc, pop, clr, l') := el_ghost A l ops in
    Permutation (el_q l ++ acc) (pop ++ clr ++ el_q l').
Proof. intros F A OL P. exact (el_conservation A OL). Qed.

(** len() = accepted - popped - cleared. *)
Theorem C02_len :
  forall (F : Type) (A : ArithOps F), OrderLaws A -> forall (P : Type) (l : eloop F P) (ops : list (el_op F P)),
    el_inv A l ->
    let '(acc, pop, clr, l') := el_ghost A l ops in
    el_len l + length acc = length pop + length clr + el_len l'.
Proof. intros F A OL P. exact (el_len_conservation A OL). Qed.

(** Exactly once: identified by their sequence numbers, popped, cleared and still-queued events
    are pairwise distinct, and every popped event had been queued or accepted. *)
Theorem C02_exactly_once :
  forall (F : Type) (A : ArithOps F), OrderLaws A -> forall (P : Type) (l : eloop F P) (ops : list (el_op F P)),
    el_inv A l ->
    let '(acc, pop, clr, l') := el_ghost A l ops in
    NoDup (map (@ev_seq F P) (pop ++ clr ++ el_q l')) /\ (forall e, In e pop -> In e (el_q l) \/ In e acc).
Proof. intros F A OL P. exact (el_exactly_once A OL). Qed.

(** The ghost bookkeeping is the real history: same final state, same popped events. *)
Theorem C02_ghost_is_real :
  forall (F : Type) (A : ArithOps F) (P : Type) (l : eloop F P) (ops : list (el_op F P)),
    snd (el_ghost A l ops) = fst (el_run A l ops) /\
    let '(_, pop, _, _) := el_ghost A l ops in
    flat_map (fun r => match r with RPopped ts p => [(ts, p)] | _ => [] end) (snd (el_run A l ops))
    = map (fun e => (ev_ts e, ev_pl e)) pop.
Proof. intros. split; [apply el_ghost_final|apply el_ghost_popped]. Qed.

(** A refused request (past timestamp, pop on an empty queue) leaves the queue exactly as it
    was, and these are the only refusals. *)
Theorem C02_refused_unchanged :
  forall (F : Type) (A : ArithOps F) (P : Type) (l l' : eloop F P) (o : el_op F P),
    el_step A l o = (l', RRefused) -> l' = l.
Proof. intros F A P l l' o. apply el_refused_unchanged. Qed.

Theorem C02_refused_iff :
  forall (F : Type) (A : ArithOps F) (P : Type) (l : eloop F P) (o : el_op F P),
    snd (el_step A l o) = RRefused <->
    match o with
    | OpSchedule ts _ => fltb A ts (el_now l) = true
    | OpPop => el_q l = []
    | _ => False
    end.
Proof. intros. apply el_refused_iff. Qed.

(** peek shows what the next pop returns. *)
Theorem C02_peek_is_next_pop :
  forall (F : Type) (A : ArithOps F) (P : Type) (l : eloop F P),
    el_peek A l = match el_pop A l with Some (e, _) => Some e | None => None end.
Proof. intros. apply el_peek_is_next_pop. Qed.

(** Whole simulations, for every four hooks (every protocol program), at every prefix of a run:
    initially queued + accepted requests = executed + still queued, as multisets.  So no
    callback runs that was not scheduled, none runs twice, and a run that ends with an empty
    queue has executed every accepted request exactly once. *)
Theorem C02_run_conservation :
  forall (F : Type) (A : ArithOps F), OrderLaws A -> forall (P H T : Type) (hk : hooks F P H T) (c : kcfg F)
         (fuel : nat) (s : kstate F P H),
    k_inv A s ->
    let '(s', items, _) := k_run A hk c fuel s in
    Permutation (map key (el_q (k_el s)) ++ scheds items) (map ekey (execs items) ++ map key (el_q (k_el s'))).
Proof. intros F A OL P H T hk c fuel s. exact (k_run_conservation A OL hk c fuel s). Qed.

(** The same under ANY driving (steps interleaved with code outside the event loop that schedules
    events, e.g. a node's provider called between two steps). *)
Theorem C02_any_driving_conservation :
  forall (F : Type) (A : ArithOps F), OrderLaws A -> forall (P H T : Type) (hk : hooks F P H T) (c : kcfg F)
         (ops : list (kdrv F P H T)) (s : kstate F P H),
    k_inv A s ->
    let '(s', items) := k_drive A hk c ops s in
    Permutation (map key (el_q (k_el s)) ++ scheds items) (map ekey (execs items) ++ map key (el_q (k_el s'))).
Proof. intros F A OL P H T hk c ops s. exact (k_drive_conservation A OL hk c ops s). Qed.

(** The iteration counter counts executed events. *)
Theorem C02_iteration_counts_executions :
  forall (F : Type) (A : ArithOps F), OrderLaws A -> forall (P H T : Type) (hk : hooks F P H T) (c : kcfg F)
         (fuel : nat) (s : kstate F P H),
    k_inv A s ->
    let '(s', items, _) := k_run A hk c fuel s in
    exec_iters items = seq (k_iter s) (length (execs items)) /\
    (k_aborted s' = false -> k_iter s' = k_iter s + length (execs items)).
Proof.
  intros F A OL P H T hk c fuel s Hinv. pose proof (k_run_props A OL hk c fuel s Hinv) as Hp.
  destruct (k_run A hk c fuel s) as [[s' items] fin]. destruct Hp as (_ & _ & _ & _ & H1 & H2). split; assumption.
Qed.

Example C02_example :
  let '(acc, pop, clr, l') :=
    el_ghost Z_ops (el_init Z_ops)
      [OpSchedule 2%Z 10%nat; OpSchedule 1%Z 11%nat; OpPop; OpPop; OpPop; OpSchedule 0%Z 12%nat; OpSchedule 4%Z 13%nat; OpClear; OpLen] in
  (length acc, length pop, length clr, el_len l') = (3, 2, 1, 0).
Proof. vm_compute. reflexivity. Qed.

(** The event loop as the code keeps it -- an array handled by heapq.heappush / heapq.heappop, peek
    reading cell 0 ([HeapLoop.v], CPython's heapq transcribed in [Heap.v]) -- answers EVERY history of
    schedule / pop / peek / clear / len / now calls exactly as the list-and-selection model the
    theorems above are about; so they hold of the heap-based loop as well. *)
Theorem C02_heap_based_loop_answers_as_the_model :
  forall (F : Type) (A : ArithOps F), OrderLaws A -> forall (P : Type) (ops : list (el_op F P)),
    snd (hl_run A (hl_init A) ops) = snd (el_run A (el_init A) ops).
Proof. intros F A OL P. exact (hl_run_from_init A OL). Qed.

Print Assumptions C02_conservation.
Print Assumptions C02_len.
Print Assumptions C02_exactly_once.
Print Assumptions C02_ghost_is_real.
Print Assumptions C02_refused_unchanged.
Print Assumptions C02_refused_iff.
Print Assumptions C02_peek_is_next_pop.
Print Assumptions C02_run_conservation.
Print Assumptions C02_any_driving_conservation.
Print Assumptions C02_iteration_counts_executions.

(** The priority queue itself (transcription of CPython's [heapq], [Heap.v]; its array layout is
    compared with CPython's on every run): for every array, item type and comparison, [heappush]
    keeps every queued item and adds exactly the new one, [heappop] removes exactly the item it
    returns (the first cell) and fails only on the empty array. *)
Theorem C02_heapq_push_conserves :
  forall (E : Type) (lt : E -> E -> bool) (h : list E) (x : E),
    Permutation (heappush lt h x) (x :: h).
Proof. exact @heappush_perm. Qed.

Theorem C02_heapq_pop_conserves :
  forall (E : Type) (lt : E -> E -> bool) (h : list E) (m : E) (h' : list E),
    heappop lt h = Some (m, h') -> Permutation h (m :: h') /\ nth_error h 0 = Some m.
Proof. exact @heappop_perm. Qed.

Theorem C02_heapq_pop_fails_iff_empty :
  forall (E : Type) (lt : E -> E -> bool) (h : list E), heappop lt h = None <-> h = [].
Proof. exact @heappop_none. Qed.

Print Assumptions C02_heapq_push_conserves.
Print Assumptions C02_heapq_pop_conserves.
Print Assumptions C02_heapq_pop_fails_iff_empty.
Print Assumptions C02_heap_based_loop_answers_as_the_model.
