(** C13 — nodes have unique identities and affect each other only through messages. *)
From Coq Require Import List ZArith NArith Bool.
Import ListNotations.
From GS Require Import Num EventLoop Kernel Sim.
From GS Require Import NumZ ExampleKit.
From GS.Proofs Require Import Aux SimP SimP3 SimP5 KernelP2 QueueRel NonInterf NonInterfRun.

Section C13.
Context {F : Type} (A : ArithOps F) {PS : Type} (cfg : scfg F)
        (react : nat -> PS -> F -> cb F -> PS * list (action F)).

(** identities: the nodes are 0, 1, 2, ... in the order they were added — pairwise distinct —
    and each has its own protocol state *)
Theorem C13_identities (ps0 : nat -> PS) :
  nodes cfg = seq 0 (c_nnodes cfg) /\ NoDup (nodes cfg) /\
  s_ps (sim_state0 cfg ps0) = map ps0 (nodes cfg) /\ length (s_ps (sim_state0 cfg ps0)) = c_nnodes cfg.
Proof.
  unfold sim_state0. simpl. unfold nodes. repeat split; try apply seq_NoDup. rewrite map_length. apply seq_length.
Qed.

(** a callback of node [n] reports node [n] to the protocol and runs node [n]'s own state *)
Theorem C13_callback_owner (h : sstate F PS) now n c :
  cbs_of (snd (callback A cfg react h now n c)) = if (n <? length (s_ps h))%nat then [(n, pnow A cfg now, c)] else [].
Proof. apply callback_cbs. Qed.

(** Frame: whatever node-scoped request node [x] issues (set/cancel timer, goto, set speed, set
    range), every other node keeps its pending timers, target, speed, range and flag; positions,
    the oracle cursor and protocol states are untouched; and every event it schedules is a timer
    event of [x] itself (so no other node's callback is created, removed or reordered w.r.t.
    other nodes' events — C03). *)
Theorem C13_node_scoped_frame (h : sstate F PS) now x a :
  node_scoped a = true ->
  let '(h', q, _) := do_action A cfg h now x a in
  (forall y, y <> x ->
     pend_of y (s_pending h') = pend_of y (s_pending h) /\
     nth y (s_tgt h') None = nth y (s_tgt h) None /\
     (forall d, nth y (s_speed h') d = nth y (s_speed h) d) /\
     (forall d, nth y (s_range h') d = nth y (s_range h) d) /\
     (forall d, nth y (s_flag h') d = nth y (s_flag h) d)) /\
  s_pos h' = s_pos h /\ s_cursor h' = s_cursor h /\ s_ps h' = s_ps h /\ s_astate h' = s_astate h /\
  (forall ts p, In (ts, p) q -> exists name id, p = EvTimer x name id).
Proof. apply node_scoped_frame. Qed.

(** a timer event of node [x] can only call back node [x] *)
Theorem C13_timer_event_owner (h : sstate F PS) now x name id :
  forall n t c, In (n, t, c) (cbs_of (snd (sim_exec A cfg react h now (EvTimer x name id)))) -> n = x.
Proof.
  intros n t c. rewrite (sim_exec_cbs A cfg react h now (EvTimer x name id)).
  destruct (existsb (pend_id x name id) (s_pending h) && (x <? length (s_ps h))%nat); [|intros []].
  intros [[= <- _ _]|[]]. reflexivity.
Qed.

(** a node's movement in an update depends on its own position, target and speed only *)
Theorem C13_movement_is_per_node (h h2 : sstate F PS) n :
  pos_of A h n = pos_of A h2 n -> nth n (s_tgt h) None = nth n (s_tgt h2) None ->
  nth n (s_speed h) (f0 A) = nth n (s_speed h2) (f0 A) -> new_pos A cfg h n = new_pos A cfg h2 n.
Proof. intros H1 H2 H3. unfold new_pos. rewrite H1, H2, H3. reflexivity. Qed.

(** Non-interference, one event at a time.  Let node [x] be silent (its protocol, whatever it is
    told, only issues node-scoped requests).  Every event that concerns [x] alone — one of its
    timers, a delivery to it, its telemetry — when executed (i) leaves everything any other node
    can observe of the handlers equal: their pending timers, targets, speeds, ranges, flags,
    protocol states, all positions, the oracle cursor; (ii) schedules only events that again
    concern [x] alone; (iii) calls back nobody but [x].  Together with C03 (events run in
    (time, request order), so events of [x] never reorder the others' events) this is why the
    other nodes' callbacks are the same with and without [x]'s requests; that composition over
    whole runs is exercised by paired runs rather than mechanised. *)
Theorem C13_silent_node_events_invisible (x : nat) (h : sstate F PS) now p :
  silent react x -> owned x p = true ->
  same_for_others x h (fst (fst (sim_exec A cfg react h now p))) /\
  (forall ts q, In (ts, q) (snd (fst (sim_exec A cfg react h now p))) -> owned x q = true) /\
  (forall it, In it (snd (sim_exec A cfg react h now p)) -> exists t c', it = TCb x t c' \/ exists a o, it = TAct x a o).
Proof. apply owned_event_is_invisible. Qed.

End C13.

(** RUN LEVEL.  Two runs of one scenario that differ only in what node [x] asks for -- in both of them [x]
    issues node-scoped requests only (timers, cancels, targets, speeds, its range, its own flag), and every
    other node runs the same protocol function in both.  Then what the other nodes observe -- every callback
    with its node, time and payload / position, and the outcome of every request they make, in order -- is
    IDENTICAL in the two runs, from initialisation through the whole main loop (any duration; any fuel that lets
    both loops finish).  Not covered: the finish phase, whose time is the global clock (known finding
    finish-time-global-clock); simulations with an assertion handler or an iteration limit (both look at
    ALL executed events, the silent node's included -- excluded by hypothesis). *)
Theorem C13_run_level_noninterference :
  forall (F : Type) (A : ArithOps F), OrderLaws A -> forall (PS : Type) (cfg : scfg F) (x : nat)
         (react1 react2 : nat -> PS -> F -> cb F -> PS * list (action F)),
    (forall y, y <> x -> forall ps t c, react1 y ps t c = react2 y ps t c) ->
    silent react1 x -> silent react2 x ->
    no_assert (c_handlers cfg) ->
    forall (c : kcfg F), k_maxit c = None ->
    forall (ps0 : nat -> PS) (f1 f2 : nat) s1' it1 s2' it2,
    let s0 := fst (sim_start A cfg ps0) in
    k_loop A (sim_hooks A cfg react1) c f1 (fst (k_initialize A (sim_hooks A cfg react1) s0)) = (s1', it1, LDone) ->
    k_loop A (sim_hooks A cfg react2) c f2 (fst (k_initialize A (sim_hooks A cfg react2) s0)) = (s2', it2, LDone) ->
    vis x (snd (k_initialize A (sim_hooks A cfg react1) s0) ++ it1) =
    vis x (snd (k_initialize A (sim_hooks A cfg react2) s0) ++ it2).
Proof.
  intros F A OL PS cfg x react1 react2 Hsame S1 S2 Hna c Hmax ps0 f1 f2 s1' it1 s2' it2.
  exact (run_noninterference A OL cfg x react1 react2 Hsame S1 S2 Hna c Hmax ps0 f1 f2 s1' it1 s2' it2).
Qed.

(** Non-vacuity: three nodes are numbered 0, 1, 2 in the order they were added; each runs its own callbacks. *)
Definition ex13 (n : nat) (ps : unit) (now : Z) (c : cb Z) : unit * list (action Z) := (tt, []).
Example C13_example :
  fst (fst (fst (runx (cfgx [HTimer] 3 [(0, 0, 0)%Z; (0, 0, 0)%Z; (0, 0, 0)%Z] 10%Z 0%Z 0%Z 1%Z 1%Z [] []) ex13 None None 20))) =
  [TCb 0 0%Z CbInit; TCb 1 0%Z CbInit; TCb 2 0%Z CbInit; TCb 0 0%Z CbFinish; TCb 1 0%Z CbFinish; TCb 2 0%Z CbFinish].
Proof. vm_compute. reflexivity. Qed.

(** Non-vacuity of the run-level theorem (integers): node 0 is silent -- with its requests (a timer, a goto, a
    speed, a cancel, a range) the run has 62 trace items, without them 54; node 1 observes the same twelve
    things in both. *)
Definition cfg13 : scfg Z := cfgx [HTimer; HComm; HMob] 2 [(0, 0, 0)%Z; (1, 0, 0)%Z] 10%Z 0%Z 0%Z 1%Z 1%Z [] [].
Definition other13 (c : cb Z) : unit * list (action Z) :=
  match c with
  | CbInit => (tt, [ASetTimer 0 2%Z; ASetTimer 1 3%Z; ASend 7 (Some 0)])
  | CbTimer _ => (tt, [ABroadcast 9])
  | _ => (tt, [])
  end.
Definition with13 (n : nat) (ps : unit) (now : Z) (c : cb Z) : unit * list (action Z) :=
  match n with
  | O => match c with
         | CbInit => (tt, [ASetTimer 0 2%Z; AGoto (5, 0, 0)%Z; ASetSpeed 1%Z])
         | CbTimer _ => (tt, [ACancel 1; ASetRange 3%Z])
         | _ => (tt, [])
         end
  | _ => other13 c
  end.
Definition without13 (n : nat) (ps : unit) (now : Z) (c : cb Z) : unit * list (action Z) :=
  match n with O => (tt, []) | _ => other13 c end.
Definition run13 react :=
  let s0 := fst (sim_start Z_ops cfg13 (fun _ => tt)) in
  let '(s1, i1) := k_initialize Z_ops (sim_hooks Z_ops cfg13 react) s0 in
  let '(s2, i2, st) := k_loop Z_ops (sim_hooks Z_ops cfg13 react) (mkCfg (Some 4%Z) None) 100 s1 in
  (vis 0 (i1 ++ i2), st, length (i1 ++ i2)).
Example C13_run_level_example :
  fst (fst (run13 with13)) = fst (fst (run13 without13)) /\
  snd (fst (run13 with13)) = LDone /\ snd (fst (run13 without13)) = LDone /\
  snd (run13 with13) = 62 /\ snd (run13 without13) = 54 /\ length (fst (fst (run13 with13))) = 12.
Proof. vm_compute. repeat split. Qed.

Print Assumptions C13_identities.
Print Assumptions C13_callback_owner.
Print Assumptions C13_node_scoped_frame.
Print Assumptions C13_timer_event_owner.
Print Assumptions C13_movement_is_per_node.
Print Assumptions C13_silent_node_events_invisible.
Print Assumptions C13_run_level_noninterference.
