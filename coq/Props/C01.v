(** C01 — simulated time never runs backwards and callbacks see their due time. *)
From Coq Require Import List ZArith Bool.
Import ListNotations.
From GS Require Import HeapLoop Num NumZ EventLoop Kernel Sim.
From GS.Proofs Require Import HeapLoopP Aux EventLoopP KernelP SimP DriveP SimDriveP TraceSpec ClockSpec.

(** Every state reachable from a fresh event loop by any history of API calls keeps all
    queued events at or after the clock (and their sequence numbers distinct). *)
Theorem C01_reachable_inv :
  forall (F : Type) (A : ArithOps F), OrderLaws A -> forall (P : Type) (ops : list (el_op F P)),
    el_inv A (fst (el_run A (el_init A) ops)).
Proof. intros F A OL P ops. apply (el_run_inv A OL). apply el_init_inv. Qed.

(** Over any history, successive pops return non-decreasing timestamps, starting at the clock. *)
Theorem C01_pops_monotone :
  forall (F : Type) (A : ArithOps F), OrderLaws A -> forall (P : Type) (l : eloop F P) (ops : list (el_op F P)),
    el_inv A l -> sorted_from (fleb A) (el_now l) (popped_ts (snd (el_run A l ops))).
Proof. intros F A OL P. exact (el_pops_monotone A OL). Qed.

(** The clock never decreases. *)
Theorem C01_clock_monotone :
  forall (F : Type) (A : ArithOps F), OrderLaws A -> forall (P : Type) (l : eloop F P) (ops : list (el_op F P)),
    el_inv A l -> fleb A (el_now l) (el_now (fst (el_run A l ops))) = true.
Proof. intros F A OL P. exact (el_now_monotone A OL). Qed.

(** A request is refused exactly when it lies in the past, and then nothing changes. *)
Theorem C01_past_refused :
  forall (F : Type) (A : ArithOps F) (P : Type) (l : eloop F P) (ts : F) (p : P),
    (el_schedule A l ts p = None <-> fltb A ts (el_now l) = true) /\
    (forall l', el_step A l (OpSchedule ts p) = (l', RRefused) -> l' = l).
Proof. intros F A P l ts p. split; [apply el_schedule_refused_iff|apply el_refused_unchanged]. Qed.

(** In any run of the simulator kernel — for every four hooks, hence every protocol program —
    events are executed at non-decreasing times starting from the clock, and the clock ends
    on the last executed event. *)
Theorem C01_kernel_exec_times :
  forall (F : Type) (A : ArithOps F), OrderLaws A -> forall (P H T : Type) (hk : hooks F P H T) (c : kcfg F)
         (fuel : nat) (s : kstate F P H),
    k_inv A s ->
    let '(s', items, _) := k_run A hk c fuel s in
    sorted_from (fleb A) (el_now (k_el s)) (exec_ts items) /\
    el_now (k_el s') = last (exec_ts items) (el_now (k_el s)).
Proof.
  intros F A OL P H T hk c fuel s Hinv. pose proof (k_run_props A OL hk c fuel s Hinv) as Hp.
  destruct (k_run A hk c fuel s) as [[s' items] fin]. destruct Hp as (_ & H1 & H2 & _). split; assumption.
Qed.

(** The same under ANY driving: every interleaving of step_simulation() calls and code outside the
    event loop that changes handler state and schedules events (every hooks, every such code). *)
Theorem C01_any_driving_exec_times :
  forall (F : Type) (A : ArithOps F), OrderLaws A -> forall (P H T : Type) (hk : hooks F P H T) (c : kcfg F)
         (ops : list (kdrv F P H T)) (s : kstate F P H),
    k_inv A s ->
    let '(s', items) := k_drive A hk c ops s in
    sorted_from (fleb A) (el_now (k_el s)) (exec_ts items) /\
    el_now (k_el s') = last (exec_ts items) (el_now (k_el s)).
Proof.
  intros F A OL P H T hk c ops s Hinv. pose proof (k_drive_props A OL hk c ops s Hinv) as Hp.
  destruct (k_drive A hk c ops s) as [s' items]. destruct Hp as (_ & H1 & H2 & _). split; assumption.
Qed.

(** ... of which the simulator driven step by step with requests made from outside the callbacks
    (before the first step, between steps) is an instance. *)
Theorem C01_external_requests_are_driving :
  forall (F : Type) (A : ArithOps F) (PS : Type) (cfg : scfg F) (react : nat -> PS -> F -> cb F -> PS * list (action F))
         (c : kcfg F) (ops : list (drv_op F)) (s : kstate F (payload F) (sstate F PS)),
    sim_drive A cfg react c ops s = k_drive A (sim_hooks A cfg react) c (map (to_kdrv A cfg) ops) s.
Proof. intros. apply sim_drive_is_k_drive. Qed.

(** The callback produced by executing an event reports the event's own time to the protocol,
    on the node the event names, with the payload the event captured — for every protocol. *)
Theorem C01_callback_sees_due_time :
  forall (F : Type) (A : ArithOps F) (PS : Type) (cfg : scfg F)
         (react : nat -> PS -> F -> cb F -> PS * list (action F)) (h : sstate F PS) (now : F) (p : payload F),
    cbs_of (snd (sim_exec A cfg react h now p)) =
    match p with
    | EvTimer n name id =>
        if existsb (pend_id n name id) (s_pending h) && (n <? length (s_ps h))%nat then [(n, pnow A cfg now, CbTimer name)] else []
    | EvDeliver _ dst msg => if (dst <? length (s_ps h))%nat then [(dst, pnow A cfg now, CbPacket msg)] else []
    | EvTick => []
    | EvTelemetry n pos => if (n <? length (s_ps h))%nat then [(n, pnow A cfg now, CbTelemetry pos)] else []
    end.
Proof. intros. apply sim_exec_cbs. Qed.

(** Whatever a callback requests is due at the current time or later, so the kernel never has
    to refuse it: timers keep their requested time, deliveries are due at send time (+ delay),
    telemetry at its tick, the next tick one interval later. *)
Theorem C01_requests_not_in_past :
  forall (F : Type) (A : ArithOps F), OrderLaws A -> forall (PS : Type) (cfg : scfg F)
         (react : nat -> PS -> F -> cb F -> PS * list (action F)) (h : sstate F PS) (now : F) (p : payload F),
    fleb A (f0 A) (c_rate cfg) = true ->
    forall ts q, In (ts, q) (snd (fst (sim_exec A cfg react h now p))) -> fleb A now ts = true.
Proof. intros F A OL PS cfg react h now p. apply (sim_exec_reqs_future A OL). Qed.

(** Non-vacuity: a concrete history on the integer instance. *)
(** WHOLE RUNS of the composed simulator.  [c_next] / [c_ok] (Proofs/ClockSpec.v) keep one value: the time of the
    event being executed (0 before the first).  Every callback of a run -- initialize, timer, packet, telemetry,
    finish, on any node, under any protocol -- reports exactly the provider's reading of that value ([pnow]: the
    value itself when a timer handler is present, else 0): a callback sees the instant its event was due. *)
Theorem C01_whole_run_callbacks_see_event_time :
  forall (F : Type) (A : ArithOps F) (PS : Type) (cfg : scfg F) (react : nat -> PS -> F -> cb F -> PS * list (action F))
         (c : kcfg F) (fuel : nat) (ps0 : nat -> PS),
    let '(s0, i0) := sim_start A cfg ps0 in
    let '(s', items, fin) := k_run A (sim_hooks A cfg react) c fuel s0 in
    accept (c_next (F:=F)) (c_ok A cfg) (f0 A) (i0 ++ items).
Proof. intros. apply whole_run_clock. Qed.

(** ... and, events being executed in non-decreasing time order, the times reported to the protocols never decrease
    from one callback to the next, over the whole run, across all nodes. *)
Theorem C01_whole_run_times_never_decrease :
  forall (F : Type) (A : ArithOps F), OrderLaws A ->
  forall (PS : Type) (cfg : scfg F) (react : nat -> PS -> F -> cb F -> PS * list (action F))
         (c : kcfg F) (fuel : nat) (ps0 : nat -> PS),
    let '(s0, i0) := sim_start A cfg ps0 in
    let '(s', items, fin) := k_run A (sim_hooks A cfg react) c fuel s0 in
    sorted_from (fleb A) (pnow A cfg (f0 A)) (cb_times items).
Proof. intros F A OL PS cfg react c fuel ps0. exact (whole_run_times_never_decrease A OL cfg react c fuel ps0). Qed.

Example C01_example :
  snd (el_run Z_ops (el_init Z_ops)
        [OpSchedule 5%Z 0%nat; OpSchedule 3%Z 1%nat; OpPop; OpSchedule 1%Z 2%nat; OpSchedule 3%Z 3%nat; OpPop; OpPop; OpNow])
  = [RScheduled; RScheduled; RPopped 3%Z 1%nat; RRefused; RScheduled; RPopped 3%Z 3%nat; RPopped 5%Z 0%nat; RNow 5%Z].
Proof. vm_compute. reflexivity. Qed.

(** The event loop as the code keeps it -- an array handled by heapq.heappush / heapq.heappop, peek
    reading cell 0 ([HeapLoop.v], CPython's heapq transcribed in [Heap.v]) -- answers EVERY history of
    schedule / pop / peek / clear / len / now calls exactly as the list-and-selection model the
    theorems above are about; so they hold of the heap-based loop as well. *)
Theorem C01_heap_based_loop_answers_as_the_model :
  forall (F : Type) (A : ArithOps F), OrderLaws A -> forall (P : Type) (ops : list (el_op F P)),
    snd (hl_run A (hl_init A) ops) = snd (el_run A (el_init A) ops).
Proof. intros F A OL P. exact (hl_run_from_init A OL). Qed.

Print Assumptions C01_reachable_inv.
Print Assumptions C01_pops_monotone.
Print Assumptions C01_clock_monotone.
Print Assumptions C01_past_refused.
Print Assumptions C01_kernel_exec_times.
Print Assumptions C01_whole_run_callbacks_see_event_time.
Print Assumptions C01_whole_run_times_never_decrease.
Print Assumptions C01_any_driving_exec_times.
Print Assumptions C01_external_requests_are_driving.
Print Assumptions C01_callback_sees_due_time.
Print Assumptions C01_requests_not_in_past.
Print Assumptions C01_heap_based_loop_answers_as_the_model.
