(** C06 — runs are reproducible and independent of how they are driven or observed. *)
From Coq Require Import List ZArith NArith Bool.
Import ListNotations.
From GS Require Import Num EventLoop Kernel Sim.
From GS Require Import NumZ Sim ExampleKit.
From GS.Proofs Require Import Aux EventLoopP KernelP KernelP2 StreamP.

(** Driving: if the blocking call terminates, then stepping manually reaches the same state and
    the same trace after some number n of steps (True, ..., True, False), and any number of
    further steps changes nothing and returns False. *)
Theorem C06_blocking_equals_stepping :
  forall (F : Type) (A : ArithOps F) (P H T : Type) (hk : hooks F P H T) (c : kcfg F)
         (fuel : nat) (s s' : kstate F P H) (items : list (kitem F P T)),
    k_run A hk c fuel s = (s', items, true) ->
    exists n, n <= fuel /\ n <> 0 /\
      forall m, k_steps A hk c (n + m) s = (s', items, repeat true (n - 1) ++ repeat false (S m)).
Proof. intros F A P H T hk c fuel s s' items. apply k_run_eq_steps. Qed.

(** Reproducibility: the model is a function.  The trace of a run is determined by the scenario
    (configuration incl. the oracle stream standing for the seeded generator, protocol program,
    bounds); logging, debug, profiling, log file, real-time pacing, the interpreter's hash seed
    and earlier simulations are not inputs of the model at all, so agreement of every such
    variant of the implementation with the one model trace (checked by the correspondence run
    on every variant) is what transfers this to the code. *)
Theorem C06_trace_is_a_function_of_the_scenario :
  forall (F : Type) (A : ArithOps F) (PS : Type) (cfg1 cfg2 : scfg F)
         (react1 react2 : nat -> PS -> F -> cb F -> PS * list (action F)) (ps0 : nat -> PS) (c1 c2 : kcfg F) (fuel : nat),
    cfg1 = cfg2 -> react1 = react2 -> c1 = c2 ->
    k_run A (sim_hooks A cfg1 react1) c1 fuel (fst (sim_start A cfg1 ps0)) =
    k_run A (sim_hooks A cfg2 react2) c2 fuel (fst (sim_start A cfg2 ps0)).
Proof. intros; subst; reflexivity. Qed.

(** Reproducibility with identical seeding: a run is a function of the scenario and of the
    random draws it actually consumes.  If two oracle streams (two states of the random
    generator) agree on the first K draws and the run consumes at most K draws, then the final
    state, the complete trace (every callback with node, kind, time, payload; every request and
    its outcome) and the termination status are identical — for every protocol program, every
    configuration, every bounds. *)
Theorem C06_same_draws_same_run :
  forall (F : Type) (A : ArithOps F) (PS : Type) (cfg : scfg F) (st2 : list F)
         (react : nat -> PS -> F -> cb F -> PS * list (action F)) (c : kcfg F) (fuel : nat)
         (s : kstate F (payload F) (sstate F PS)) (K : nat),
    agree A cfg st2 K ->
    cur (fst (fst (k_run A (sim_hooks A cfg react) c fuel s))) <= K ->
    k_run A (sim_hooks A (cfg2 cfg st2) react) c fuel s = k_run A (sim_hooks A cfg react) c fuel s.
Proof. intros F A PS cfg st2 react c fuel s K Ha Hk. exact (k_run_stream A cfg st2 react c fuel s K Ha Hk). Qed.

(** the generator is consulted only by transmissions, one draw per attempted copy, at the
    cursor: draws are consumed in a fixed order determined by the run itself *)
Theorem C06_draws_are_consumed_in_order :
  forall (F : Type) (A : ArithOps F) (PS : Type) (cfg : scfg F)
         (react : nat -> PS -> F -> cb F -> PS * list (action F)) (c : kcfg F) (s : kstate F (payload F) (sstate F PS)),
    cur s <= cur (fst (fst (k_step A (sim_hooks A cfg react) c s))).
Proof. intros. apply k_step_cur. Qed.

(** Non-vacuity: the same scenario driven by the blocking call and by six manual steps. *)
Definition ex6 (n : nat) (ps : unit) (now : Z) (c : cb Z) : unit * list (action Z) :=
  match c with CbInit => (tt, [ASetTimer 0 1%Z; ASetTimer 1 2%Z]) | _ => (tt, []) end.
Example C06_example :
  fst (fst (fst (runx (cfgx [HTimer] 1 [(0, 0, 0)%Z] 10%Z 0%Z 0%Z 1%Z 1%Z [] []) ex6 None None 20))) =
  fst (stepx (cfgx [HTimer] 1 [(0, 0, 0)%Z] 10%Z 0%Z 0%Z 1%Z 1%Z [] []) ex6 None None 6) /\
  snd (stepx (cfgx [HTimer] 1 [(0, 0, 0)%Z] 10%Z 0%Z 0%Z 1%Z 1%Z [] []) ex6 None None 6) = [true; false; false; false; false; false].
Proof. vm_compute. split; reflexivity. Qed.

Print Assumptions C06_blocking_equals_stepping.
Print Assumptions C06_trace_is_a_function_of_the_scenario.
Print Assumptions C06_same_draws_same_run.
Print Assumptions C06_draws_are_consumed_in_order.
