(** C17 — random trips stay inside their box, redraw only on arrival, and stop when told. *)
From Coq Require Import List Arith Bool Reals.
Import ListNotations.
From GS Require Import Num NumR RandomTrip.
From Coq Require Import ZArith.
From GS Require Import NumZ.
From GS.Proofs Require Import RandomTripP.

(** the telemetry hook is in the dispatcher chain exactly while a trip is ongoing, in every
    state reachable by any history of initiate / finish / telemetry / travel calls *)
Theorem C17_hook_registered_iff_ongoing :
  forall (F : Type) (A : ArithOps F) (cfg : tconfig F) (stream : list F) (ops : list (top F)),
    t_inv (fst (t_run A cfg stream (t_init (F:=F)) ops)).
Proof. intros. apply t_run_inv. apply t_init_inv. Qed.

(** every waypoint drawn is sent as a goto (and returned) and costs exactly three draws (x, y, z) *)
Theorem C17_travel :
  forall (F : Type) (A : ArithOps F) (cfg : tconfig F) (stream : list F) (s : tstate F),
    t_step A cfg stream s TTravel =
    (mkT (t_ongoing s) (t_target s) (t_nreg s) (t_cursor s + 3), [waypoint A cfg stream s]).
Proof. intros. apply travel_spec. Qed.

(** initiating (also on an ongoing trip: the old one is finished first) draws one waypoint, makes
    it the current target, sends it, and leaves exactly one hook registered *)
Theorem C17_initiate :
  forall (F : Type) (A : ArithOps F) (cfg : tconfig F) (stream : list F) (s : tstate F),
    t_inv s ->
    t_step A cfg stream s TInitiate =
    (mkT true (Some (waypoint A cfg stream (finish s))) 1 (t_cursor s + 3), [waypoint A cfg stream (finish s)]).
Proof. intros. apply initiate_spec; assumption. Qed.

(** during a trip a new waypoint is drawn exactly when telemetry reports a position within the
    tolerance of the current target — one waypoint, which becomes the target and is sent *)
Theorem C17_redraw_iff_arrived :
  forall (F : Type) (A : ArithOps F) (cfg : tconfig F) (stream : list F) (s : tstate F) (pos : vec3 F),
    t_inv s -> t_ongoing s = true ->
    t_step A cfg stream s (TTelemetry pos) =
    if within A cfg s pos
    then (mkT true (Some (waypoint A cfg stream s)) 1 (t_cursor s + 3), [waypoint A cfg stream s])
    else (s, []).
Proof. intros. apply telemetry_spec; assumption. Qed.

(** finishing works in every state; with no trip it is a no-op *)
Theorem C17_finish :
  forall (F : Type) (A : ArithOps F) (cfg : tconfig F) (stream : list F) (s : tstate F),
    t_inv s ->
    t_step A cfg stream s TFinish = (if t_ongoing s then mkT false (t_target s) 0 (t_cursor s) else s, []).
Proof. intros. apply finish_spec; assumption. Qed.

(** after a trip is finished no telemetry produces a movement command — for every history before
    the finish, however many times the trip was initiated *)
Theorem C17_stops_when_told :
  forall (F : Type) (A : ArithOps F) (cfg : tconfig F) (stream : list F) (ops : list (top F)) (pos : vec3 F),
    let s := fst (t_run A cfg stream (t_init (F:=F)) (ops ++ [TFinish])) in
    t_ongoing s = false /\ t_step A cfg stream s (TTelemetry pos) = (s, []).
Proof. intros. apply finished_after_any_history. Qed.

(** inside the box: over the reals, a coordinate drawn from range (a, b) with a <= b lies in [a, b] *)
Theorem C17_in_box :
  forall (a b u : R), (a <= b)%R -> (0 <= u <= 1)%R -> (a <= uniform R_ops (a, b) u <= b)%R.
Proof. exact uniform_in_range. Qed.

(** Non-vacuity (integers, scripted draws): a trip is started (3 draws, goto), telemetry far from the waypoint
    changes nothing, telemetry on the waypoint draws the next one (3 more draws), finishing stops reacting. *)
Example C17_example :
  snd (t_run Z_ops (mkTCfg (0, 10)%Z (0, 20)%Z (5, 5)%Z 1%Z) [1; 1; 0; 0; 1; 0]%Z (t_init)
         [TInitiate; TTelemetry (0, 0, 0)%Z; TTelemetry (10, 20, 5)%Z; TFinish; TTelemetry (0, 0, 0)%Z]) =
  [([(10, 20, 5)%Z], (true, Some (10, 20, 5)%Z, 3));
   ([], (true, Some (10, 20, 5)%Z, 3));
   ([(0, 20, 5)%Z], (true, Some (0, 20, 5)%Z, 6));
   ([], (false, Some (0, 20, 5)%Z, 6));
   ([], (false, Some (0, 20, 5)%Z, 6))].
Proof. vm_compute. reflexivity. Qed.

Print Assumptions C17_hook_registered_iff_ongoing.
Print Assumptions C17_travel.
Print Assumptions C17_initiate.
Print Assumptions C17_redraw_iff_arrived.
Print Assumptions C17_finish.
Print Assumptions C17_stops_when_told.
Print Assumptions C17_in_box.
