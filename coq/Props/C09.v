(** C09 — delivery is gated by the sender's range and the positions at send time. *)
From Coq Require Import List ZArith NArith Bool Reals.
Import ListNotations.
From GS Require Import Num NumR EventLoop Kernel Sim.
From GS Require Import NumZ Sim ExampleKit.
From GS.Proofs Require Import Aux SimP SimP3 SimR.
From GS.Proofs Require Import TraceSpec TraceSpecQ MoveSpec SchedSpec.

Section C09.
Context {F : Type} (A : ArithOps F) {PS : Type} (cfg : scfg F)
        (react : nat -> PS -> F -> cb F -> PS * list (action F)).

(** A copy is scheduled iff the receiver is within the SENDER's current range at the positions
    of the state in which the send request is made (and the loss draw passes). *)
Theorem C09_range_gate (h : sstate F PS) now src dst msg :
  snd (transmit A cfg h now src dst msg) =
  if (if fltb A (f0 A) (c_fail cfg) then fltb A (c_fail cfg) (nth (s_cursor h) (c_stream cfg) (f0 A)) else true)
     && in_range A h src dst
  then [(deliver_time A cfg now, EvDeliver src dst msg)] else [].
Proof.
  rewrite transmit_spec. destruct (fltb A (f0 A) (c_fail cfg)); simpl; [reflexivity|].
  destruct (in_range A h src dst); reflexivity.
Qed.

(** The delivery event carries no position: executing it only calls the receiver, whatever the
    positions are by then — later movement cannot matter. *)
Theorem C09_delivery_ignores_positions (h : sstate F PS) now src dst msg :
  sim_exec A cfg react h now (EvDeliver src dst msg) = callback A cfg react h now dst (CbPacket msg).
Proof. reflexivity. Qed.

(** Changing one node's range: negative values raise ValueError and change nothing; otherwise
    exactly that node's entry changes ... *)
Theorem C09_set_range (h : sstate F PS) now n r :
  has_comm cfg = true ->
  do_action A cfg h now n (ASetRange r) =
  if fltb A r (f0 A) then (h, [], ErrValue) else (set_range h (upd n r (s_range h)), [], Ok).
Proof. apply set_range_spec. Qed.

(** ... and what any OTHER node can transmit (to anybody, including to the node whose range
    changed) is unaffected: the gate reads the sender's entry only. *)
Theorem C09_range_affects_own_transmissions_only (h : sstate F PS) n r y d :
  y <> n -> in_range A (set_range h (upd n r (s_range h))) y d = in_range A h y d.
Proof. apply in_range_other_range. Qed.

(** WHOLE RUNS.  The acceptor [x_next] / [x_ok] (Proofs/SchedSpec.v) replays from the trace alone the positions
    (initial ones, then one [step1] per node at every executed update), targets and speeds (accepted gotos /
    set-speeds), the per-node ranges (accepted set-range requests), the number of draws and the timer counter, and
    from them computes what each visible item asks the event loop to schedule: for an accepted unicast or
    broadcast, one delivery per addressee that is within the SENDER's range at the positions OF THAT MOMENT
    (and whose draw passes), due at send time (+ delay) -- see [x_transmit].  The scheduling items that follow
    (accepted or refused) must be exactly these, in order, all of them before the next event is executed.  Every
    run from build() -- any protocol, bounds, fuel -- is accepted, and the replayed state is the simulator's own.
    So a delivery exists iff it was in range at the send instant; what happens to the positions during the delay
    cannot matter (the delivery event is already queued); a range change affects only the sender's later copies. *)
Theorem C09_whole_run_scheduling_justified (c : kcfg F) fuel ps0 :
  let '(s0, i0) := sim_start A cfg ps0 in
  let '(s', items, fin) := k_run A (sim_hooks A cfg react) c fuel s0 in
  accept (x_next A cfg) x_ok (x0 A cfg) (i0 ++ items) /\
  after (x_next A cfg) (x0 A cfg) (i0 ++ items) = x_abs (el_now (k_el s')) (k_h s').
Proof. exact (whole_run_scheduled A cfg react c fuel ps0). Qed.

(** what one copy asks for, read off the acceptor *)
Theorem C09_copy_owed_iff_in_range_now (x : xst) src dst msg :
  x_owed (x_transmit A cfg x src dst msg) =
  x_owed x ++
  (if (if fltb A (f0 A) (c_fail cfg) then fltb A (c_fail cfg) (nth (x_cur x) (c_stream cfg) (f0 A)) else true) &&
      fleb A (sqdist A (nth src (x_pos x) (zero3 A)) (nth dst (x_pos x) (zero3 A))) (fsq A (nth src (x_range x) (f0 A)))
   then [(if fleb A (c_delay cfg) (f0 A) then x_now x else fadd A (x_now x) (c_delay cfg), EvDeliver src dst msg)]
   else []).
Proof. reflexivity. Qed.

End C09.

(** Over the reals the squared comparison made by the code IS the Euclidean condition
    "distance <= range", boundary included. *)
Theorem C09_gate_is_euclidean (s e : vec3 R) (r : R) :
  (0 <= r)%R -> (fleb R_ops (sqdist R_ops s e) (fsq R_ops r) = true <-> (dist3 s e <= r)%R).
Proof. apply in_range_iff_euclid. Qed.

(** Non-vacuity: range 5, receivers at distance exactly 5 (boundary: delivered) and 10 (not). *)
Definition ex9 (n : nat) (ps : unit) (now : Z) (c : cb Z) : unit * list (action Z) :=
  match c, n with CbInit, O => (tt, [ABroadcast 8]) | _, _ => (tt, []) end.
Example C09_example :
  fst (fst (fst (runx (cfgx [HTimer; HComm] 3 [(0, 0, 0)%Z; (3, 4, 0)%Z; (6, 8, 0)%Z] 5%Z 0%Z 0%Z 1%Z 1%Z [] []) ex9 None None 20))) =
  [TCb 0 0%Z CbInit; TAct 0 (ABroadcast 8) Ok; TCb 1 0%Z CbInit; TCb 2 0%Z CbInit; TCb 1 0%Z (CbPacket 8);
   TCb 0 0%Z CbFinish; TCb 1 0%Z CbFinish; TCb 2 0%Z CbFinish].
Proof. vm_compute. reflexivity. Qed.

Print Assumptions C09_range_gate.
Print Assumptions C09_delivery_ignores_positions.
Print Assumptions C09_set_range.
Print Assumptions C09_range_affects_own_transmissions_only.
Print Assumptions C09_gate_is_euclidean.
Print Assumptions C09_whole_run_scheduling_justified.
Print Assumptions C09_copy_owed_iff_in_range_now.
