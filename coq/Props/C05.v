(** C05 — protocol and handler lifecycle callbacks happen exactly once and in phase order. *)
From Coq Require Import List ZArith NArith Bool.
Import ListNotations.
From GS Require Import Num EventLoop Kernel Sim.
From GS Require Import NumZ Sim ExampleKit.
From GS.Proofs Require Import Aux EventLoopP KernelP KernelP2 SimP SimP2.

(** A whole run from a freshly built simulator, for every handler set, node set, bounds and
    protocol program, is exactly: the initialisation phase once; then the main loop, each body
    being one executed event with its callbacks followed by the after-step hooks, with
    consecutive iteration numbers; then the finalisation phase once (unless an exception
    escaped or the loop did not terminate). *)
Theorem C05_run_lifecycle :
  forall (F : Type) (A : ArithOps F) (P H T : Type) (hk : hooks F P H T) (c : kcfg F) (fuel : nat) (s : kstate F P H),
    k_inited s = false -> k_final s = false -> k_aborted s = false ->
    k_run A hk c (S fuel) s =
    let '(s1, i1) := k_initialize A hk s in
    let '(s2, i2, st) := k_loop A hk c (S fuel) s1 in
    let '(s3, i3, fin) := k_conclude A hk st s2 i2 in
    (s3, i1 ++ i3, fin).
Proof. intros. apply k_run_lifecycle; assumption. Qed.

(** Iteration numbers handed to the after-step hooks are 0, 1, 2, ... *)
Theorem C05_consecutive_iterations :
  forall (F : Type) (A : ArithOps F), OrderLaws A -> forall (P H T : Type) (hk : hooks F P H T) (c : kcfg F)
         (fuel : nat) (s : kstate F P H),
    k_inv A s ->
    let '(_, items, _) := k_run A hk c fuel s in
    exec_iters items = seq (k_iter s) (length (execs items)).
Proof.
  intros F A OL P H T hk c fuel s Hinv. pose proof (k_run_props A OL hk c fuel s Hinv) as Hp.
  destruct (k_run A hk c fuel s) as [[s' items] fin]. destruct Hp as (_ & _ & _ & _ & H1 & _). exact H1.
Qed.

(** The initialisation phase of the python simulator: each recording handler's initialize once,
    in handler order, then initialize on every node, in node order, reporting time 0. *)
Theorem C05_init_phase :
  forall (F : Type) (A : ArithOps F) (PS : Type) (cfg : scfg F)
         (react : nat -> PS -> F -> cb F -> PS * list (action F)) (h : sstate F PS),
    length (s_ps h) = c_nnodes cfg ->
    exists t2, snd (sim_init A cfg react h) = map (@THInit F) (recs (c_handlers cfg)) ++ t2 /\
      cbs_of t2 = map (fun n => (n, pnow A cfg (f0 A), CbInit)) (seq 0 (c_nnodes cfg)) /\
      length (s_ps (fst (fst (sim_init A cfg react h)))) = c_nnodes cfg.
Proof. intros. apply sim_init_shape; assumption. Qed.

(** The after-step hook of every handler is called once per executed event, in handler order,
    with that event's iteration number and timestamp (cut short only by a failing assertion). *)
Theorem C05_after_step_phase :
  forall (F : Type) (PS : Type) (cfg : scfg F) (h : sstate F PS) (iter : nat) (ts : F),
    let '(h1, t, raised) := sim_after cfg h iter ts in
    s_ps h1 = s_ps h /\
    if raised
    then exists pre suf idx, recs (c_handlers cfg) = pre ++ suf /\ t = map (fun j => THAfter j iter ts) pre ++ [TAssertFail idx]
    else t = map (fun j => THAfter j iter ts) (recs (c_handlers cfg)).
Proof. intros. apply handlers_after_spec. Qed.

(** The finalisation phase: finish on every node, in node order, at the time of the last
    executed event, then every recording handler's finalize in order. *)
Theorem C05_finish_phase :
  forall (F : Type) (A : ArithOps F) (PS : Type) (cfg : scfg F)
         (react : nat -> PS -> F -> cb F -> PS * list (action F)) (h : sstate F PS) (now : F),
    length (s_ps h) = c_nnodes cfg ->
    let '(h1, q, t, raised) := sim_finish A cfg react h now in
    exists t1 t2, t = t1 ++ t2 /\
      cbs_of t1 = map (fun n => (n, pnow A cfg now, CbFinish)) (seq 0 (c_nnodes cfg)) /\
      (if raised
       then exists pre suf idx, recs (c_handlers cfg) = pre ++ suf /\ t2 = map (@THFinal F) pre ++ [TAssertFail idx]
       else t2 = map (@THFinal F) (recs (c_handlers cfg))).
Proof. intros. apply sim_finish_shape; assumption. Qed.

(** Events never produce lifecycle callbacks: executing an event calls back at most one
    protocol method, and it is handle_timer / handle_packet / handle_telemetry. *)
Theorem C05_events_are_not_lifecycle :
  forall (F : Type) (A : ArithOps F) (PS : Type) (cfg : scfg F)
         (react : nat -> PS -> F -> cb F -> PS * list (action F)) (h : sstate F PS) (now : F) (p : payload F),
    forall n t c, In (n, t, c) (cbs_of (snd (sim_exec A cfg react h now p))) -> c <> CbInit /\ c <> CbFinish.
Proof.
  intros F A PS cfg react h now p n t c. rewrite sim_exec_cbs.
  destruct p; simpl;
    repeat match goal with |- context [if ?b then _ else _] => destruct b; simpl end;
    intros Hin; try contradiction; destruct Hin as [[= <- <- <-]|[]]; split; discriminate.
Qed.

(** Once the run has reported completion, further stepping executes nothing, changes nothing
    and keeps returning False — however many extra steps are made. *)
Theorem C05_no_step_after_completion :
  forall (F : Type) (A : ArithOps F) (P H T : Type) (hk : hooks F P H T) (c : kcfg F) (s : kstate F P H) (m : nat),
    k_final s = true \/ k_aborted s = true -> k_steps A hk c m s = (s, [], repeat false m).
Proof. intros. apply k_steps_after_completion; assumption. Qed.

(** Non-vacuity: one recording handler, one node, one timer -- the whole lifecycle in order. *)
Definition ex5 (n : nat) (ps : unit) (now : Z) (c : cb Z) : unit * list (action Z) :=
  match c with CbInit => (tt, [ASetTimer 0 1%Z]) | _ => (tt, []) end.
Example C05_example :
  runx (cfgx [HRec 0; HTimer] 1 [(0, 0, 0)%Z] 10%Z 0%Z 0%Z 1%Z 1%Z [] []) ex5 None None 20 =
  ([THInit 0; TCb 0 0%Z CbInit; TAct 0 (ASetTimer 0 1%Z) Ok; TCb 0 1%Z (CbTimer 0); THAfter 0 0 1%Z;
    TCb 0 1%Z CbFinish; THFinal 0], true, 0, [(0, 0, 0)%Z]).
Proof. vm_compute. reflexivity. Qed.

Print Assumptions C05_run_lifecycle.
Print Assumptions C05_consecutive_iterations.
Print Assumptions C05_init_phase.
Print Assumptions C05_after_step_phase.
Print Assumptions C05_finish_phase.
Print Assumptions C05_events_are_not_lifecycle.
Print Assumptions C05_no_step_after_completion.
