(** C18 — simulation assertions fail exactly when, and as soon as, they are violated. *)
From Coq Require Import List ZArith NArith Bool.
Import ListNotations.
From GS Require Import Num EventLoop Kernel Sim.
From GS Require Import NumZ ExampleKit.
From GS.Proofs Require Import Aux KernelP KernelP2 AssertP.

Section C18.
Context {F : Type} {PS : Type} (cfg : scfg F).

(** protocol-scoped always-assertion: raises after an executed event iff its predicate is false
    for some node whose protocol is of the stated type (or a subclass) *)
Theorem C18_always_proto (h : sstate F PS) ty st :
  raises cfg h (AAlwaysProto ty) st = true <-> exists n, In n (inst_nodes cfg ty) /\ flag_of h n = false.
Proof. apply always_proto_raises_iff. Qed.

Theorem C18_nodes_of_type ty n :
  In n (inst_nodes cfg ty) <-> n < c_nnodes cfg /\ is_inst (nth n (c_types cfg) 0) ty = true.
Proof. apply inst_nodes_spec. Qed.

(** simulation-scoped always-assertion: raises iff the predicate over the node list is false *)
Theorem C18_always_sim (h : sstate F PS) q st : raises cfg h (AAlwaysSim q) st = negb (qpred cfg h q).
Proof. reflexivity. Qed.

(** eventually-assertions never interrupt the run *)
Theorem C18_eventually_never_interrupts (h : sstate F PS) a st :
  match a with AEventuallyProto _ | AEventuallySim _ => raises cfg h a st = false | _ => True end.
Proof. apply eventually_never_raises_in_run. Qed.

(** several assertions: the first violated one in list order is reported; none if none is *)
Theorem C18_first_in_list_order (h : sstate F PS) k asl sts :
  length asl = length sts ->
  match snd (asserts_iter cfg h k asl sts) with
  | Some i => exists j, i = k + j /\ j < length asl /\
                raises cfg h (nth j asl (AAlwaysSim QAll)) (nth j sts ASNone) = true /\
                forall j', j' < j -> raises cfg h (nth j' asl (AAlwaysSim QAll)) (nth j' sts ASNone) = false
  | None => forall j, j < length asl -> raises cfg h (nth j asl (AAlwaysSim QAll)) (nth j sts ASNone) = false
  end.
Proof. apply asserts_iter_first. Qed.

(** simulation-scoped eventually-assertion: at finalisation it fails iff the predicate was never
    true after any executed event — also for a run that executed no event *)
Theorem C18_eventually_sim (q : quant) (hs : list (sstate F PS)) :
  assert_final (AEventuallySim q)
    (fold_left (fun st h => fst (assert_iter cfg h (AEventuallySim q) st)) hs (assert_init cfg (AEventuallySim q)))
  = negb (existsb (fun h => qpred cfg h q) hs).
Proof. apply eventually_sim_fails_iff. Qed.

(** protocol-scoped eventually-assertion: after initialisation every node of the type is tracked
    as "not yet true" (so a run with no event fails); each evaluation turns a node's entry into
    "was true before or is true now"; finalisation fails iff some entry is still false *)
Theorem C18_eventually_proto_init ty m :
  match assert_init cfg (AEventuallyProto ty) with
  | ASProto l => seen_get m l = if existsb (Nat.eqb m) (inst_nodes cfg ty) then Some false else None
  | _ => False
  end.
Proof. apply eventually_proto_init. Qed.

Theorem C18_eventually_proto_step (h : sstate F PS) ty l m :
  match fst (assert_iter cfg h (AEventuallyProto ty) (ASProto l)) with
  | ASProto l' =>
      seen_get m l' =
      if existsb (Nat.eqb m) (inst_nodes cfg ty)
      then Some (match seen_get m l with Some b => b | None => false end || flag_of h m)
      else seen_get m l
  | _ => False
  end.
Proof. apply eventually_proto_iter. Qed.

Theorem C18_eventually_proto_final ty l :
  assert_final (AEventuallyProto ty) (ASProto l) = true <-> exists n, In (n, false) l.
Proof. apply eventually_proto_final. Qed.

End C18.

(** After an interrupting failure no further event is executed: a step in which an after-step
    hook raised leaves the simulator aborted and reports "stop"; from then on every step does
    nothing. *)
Theorem C18_no_event_after_failure :
  forall (F : Type) (A : ArithOps F) (P H T : Type) (hk : hooks F P H T) (c : kcfg F) (s : kstate F P H) (m : nat),
    let '(s', _, b) := k_step A hk c s in
    k_aborted s' = true -> b = false /\ k_steps A hk c m s' = (s', [], repeat false m).
Proof.
  intros F A P H T hk c s m. pose proof (k_step_result A hk c s) as Hr.
  destruct (k_step A hk c s) as [[s' it] b]. intros Ha. split.
  - destruct b; [destruct Hr as (_ & Hn & _); congruence|reflexivity].
  - apply k_steps_after_completion. right. exact Ha.
Qed.

(** Non-vacuity: an always-assertion interrupts the run right after the first event that leaves the flag
    false (the timer at 2; the one at 3 never runs); an eventually-assertion whose predicate never held fails
    at the end. *)
Definition ex18 (n : nat) (ps : unit) (now : Z) (c : cb Z) : unit * list (action Z) :=
  match c with
  | CbInit => (tt, [ASetFlag true; ASetTimer 0 1%Z; ASetTimer 0 2%Z; ASetTimer 0 3%Z])
  | CbTimer _ => (tt, [ASetFlag (Z.ltb now 2)])
  | _ => (tt, [])
  end.
Definition ex18b (n : nat) (ps : unit) (now : Z) (c : cb Z) : unit * list (action Z) := (tt, []).
Example C18_example :
  fst (fst (fst (runx (cfgx [HTimer; HAssert] 1 [(0, 0, 0)%Z] 10%Z 0%Z 0%Z 1%Z 1%Z [AAlwaysProto 0] []) ex18 None None 20))) =
  [TCb 0 0%Z CbInit; TAct 0 (ASetFlag true) Ok; TAct 0 (ASetTimer 0 1%Z) Ok; TAct 0 (ASetTimer 0 2%Z) Ok; TAct 0 (ASetTimer 0 3%Z) Ok;
   TCb 0 1%Z (CbTimer 0); TAct 0 (ASetFlag true) Ok; TCb 0 2%Z (CbTimer 0); TAct 0 (ASetFlag false) Ok; TAssertFail 0] /\
  fst (fst (fst (runx (cfgx [HTimer; HAssert] 1 [(0, 0, 0)%Z] 10%Z 0%Z 0%Z 1%Z 1%Z [AEventuallySim QAll] []) ex18b None None 20))) =
  [TCb 0 0%Z CbInit; TCb 0 0%Z CbFinish; TAssertFail 0].
Proof. vm_compute. split; reflexivity. Qed.

Print Assumptions C18_always_proto.
Print Assumptions C18_nodes_of_type.
Print Assumptions C18_always_sim.
Print Assumptions C18_eventually_never_interrupts.
Print Assumptions C18_first_in_list_order.
Print Assumptions C18_eventually_sim.
Print Assumptions C18_eventually_proto_init.
Print Assumptions C18_eventually_proto_step.
Print Assumptions C18_eventually_proto_final.
Print Assumptions C18_no_event_after_failure.
