(** C12 — each node gets one telemetry per mobility update, carrying its own position. *)
From Coq Require Import List ZArith NArith Bool.
Import ListNotations.
From GS Require Import Num EventLoop Kernel Sim.
From GS Require Import NumZ Sim ExampleKit.
From GS.Proofs Require Import Aux SimP SimP3 TraceSpec TimerSpec QueueRel TickChain.

Section C12.
Context {F : Type} (A : ArithOps F) {PS : Type} (cfg : scfg F)
        (react : nat -> PS -> F -> cb F -> PS * list (action F)).

(** One mobility update at time t requests, for each registered node in node order, exactly one
    telemetry event due at t whose payload is that node's own new position (a value, fixed at
    this point), then the next update at t + interval — nothing else. *)
Theorem C12_update_requests (h : sstate F PS) now :
  snd (tick A cfg h now) =
  map (fun n => (now, EvTelemetry n (new_pos A cfg h n))) (seq 0 (c_nnodes cfg)) ++ [(fadd A now (c_rate cfg), EvTick)].
Proof.
  pose proof (tick_spec A cfg h now) as Ht. destruct (tick A cfg h now) as [h1 q]. destruct Ht as (Q & _). exact Q.
Qed.

(** ... and that payload IS the node's position right after the update. *)
Theorem C12_payload_is_position_after_update (h : sstate F PS) now :
  forall m, m < c_nnodes cfg -> m < length (s_pos h) -> pos_of A (fst (tick A cfg h now)) m = new_pos A cfg h m.
Proof.
  pose proof (tick_spec A cfg h now) as Ht. destruct (tick A cfg h now) as [h1 q]. destruct Ht as (_ & _ & _ & P). exact P.
Qed.

(** A telemetry event calls handle_telemetry once, on its own node, at its own time, with the
    position it carries — never another node's. *)
Theorem C12_telemetry_callback (h : sstate F PS) now n pos :
  cbs_of (snd (sim_exec A cfg react h now (EvTelemetry n pos))) =
  if (n <? length (s_ps h))%nat then [(n, pnow A cfg now, CbTelemetry pos)] else [].
Proof. apply (sim_exec_cbs A cfg react h now (EvTelemetry n pos)). Qed.

(** The first update is due one interval after time 0 and each update schedules the next one
    interval later: update times are the iterates of "+ interval" from 0. *)
Theorem C12_first_update : has_mob cfg = true -> sim_reqs0 A cfg = [(fadd A (f0 A) (c_rate cfg), EvTick)].
Proof. intros Hm. unfold sim_reqs0. rewrite Hm. reflexivity. Qed.

(** WHOLE RUNS (every run is accepted by the acceptor of Proofs/TimerSpec.v): a telemetry
    callback happens only right after the execution of a telemetry event for that node carrying
    that very position, at the event's time; and every such event is followed by its callback. *)
Theorem C12_telemetry_callback_only_from_its_event x0 pre n t pos post :
  accept (t_next A cfg) t_ok x0 (pre ++ KUser (TCb n t (CbTelemetry pos)) :: post) -> t_exp x0 = None ->
  exists pre' i ts sq, pre = pre' ++ [KExec i ts sq (EvTelemetry n pos)] /\ t = pnow A cfg ts.
Proof. exact (telemetry_callback_has_cause A cfg x0 pre n t pos post). Qed.

Theorem C12_telemetry_event_calls_back x0 pre i ts sq n pos post :
  accept (t_next A cfg) t_ok x0 (pre ++ KExec i ts sq (EvTelemetry n pos) :: post) -> n < c_nnodes cfg ->
  (post = [] /\ t_exp (after (t_next A cfg) x0 (pre ++ [KExec i ts sq (EvTelemetry n pos)])) = Some (n, pnow A cfg ts, CbTelemetry pos)) \/
  exists post', post = KUser (TCb n (pnow A cfg ts) (CbTelemetry pos)) :: post'.
Proof.
  intros Hacc Hn. apply (cause_fires A cfg x0 pre _ post n (pnow A cfg ts) (CbTelemetry pos) Hacc).
  simpl. apply Nat.ltb_lt in Hn. rewrite Hn. reflexivity.
Qed.

(** WHOLE RUNS: the mobility updates executed by a run from build() -- any protocol, bounds, fuel -- happen at
    0 + i, (0 + i) + i, ((0 + i) + i) + i, ... for the update interval i ([chain]: each executed update is due
    exactly at the expected instant, and the next expected instant is that one plus the interval, computed
    by the same floating-point addition as the code): the first is due one interval after the start, each
    schedules the next, nothing else schedules or removes an update, at most one is pending at any time.
    With C12_update_requests (an update requests one telemetry per node, due at the update's own time, in node
    order) and the callback-cause theorems above: every node gets exactly one telemetry callback per executed
    update, at that update's time. *)
Theorem C12_updates_at_consecutive_multiples (OL : OrderLaws A) (c : kcfg F) fuel ps0 :
  let '(s0, i0) := sim_start A cfg ps0 in
  let '(s', items, fin) := k_run A (sim_hooks A cfg react) c fuel s0 in
  chain A cfg (fadd A (f0 A) (c_rate cfg)) (tick_times items).
Proof. exact (whole_run_ticks A OL cfg react c fuel ps0). Qed.

End C12.

(** Non-vacuity: two nodes, interval 1, duration 3: one telemetry per node per update, at 1, 2, 3, in node
    order, each carrying that node's own position. *)
Definition ex12 (n : nat) (ps : unit) (now : Z) (c : cb Z) : unit * list (action Z) := (tt, []).
Example C12_example :
  fst (fst (fst (runx (cfgx [HMob; HTimer] 2 [(0, 0, 0)%Z; (1, 1, 1)%Z] 10%Z 0%Z 0%Z 1%Z 5%Z [] []) ex12 (Some 3%Z) None 50))) =
  [TCb 0 0%Z CbInit; TCb 1 0%Z CbInit;
   TCb 0 1%Z (CbTelemetry (0, 0, 0)%Z); TCb 1 1%Z (CbTelemetry (1, 1, 1)%Z);
   TCb 0 2%Z (CbTelemetry (0, 0, 0)%Z); TCb 1 2%Z (CbTelemetry (1, 1, 1)%Z);
   TCb 0 3%Z (CbTelemetry (0, 0, 0)%Z); TCb 1 3%Z (CbTelemetry (1, 1, 1)%Z);
   TCb 0 3%Z CbFinish; TCb 1 3%Z CbFinish].
Proof. vm_compute. reflexivity. Qed.

Print Assumptions C12_update_requests.
Print Assumptions C12_payload_is_position_after_update.
Print Assumptions C12_telemetry_callback.
Print Assumptions C12_first_update.
Print Assumptions C12_telemetry_callback_only_from_its_event.
Print Assumptions C12_telemetry_event_calls_back.
Print Assumptions C12_updates_at_consecutive_multiples.
