(** C11 — nodes move in straight lines at their speed, never overshoot, and stop on target. *)
From Coq Require Import List ZArith NArith Bool Reals.
Import ListNotations.
From GS Require Import Num NumR EventLoop Kernel Sim.
From GS Require Import NumZ Sim ExampleKit.
From GS.Proofs Require Import Aux SimP SimP3 SimR TraceSpec MoveSpec.

Section C11.
Context {F : Type} (A : ArithOps F) {PS : Type} (cfg : scfg F).

(** within one step of the target the node lands exactly on it (every number type) *)
Theorem C11_lands cur tgt speed :
  let dd := fsqrt A (fadd A (fadd A (fsq A (fsub A (vx tgt) (vx cur))) (fsq A (fsub A (vy tgt) (vy cur))))
                            (fsq A (fsub A (vz tgt) (vz cur)))) in
  fleb A dd (fmul A speed (c_rate cfg)) = true -> move A cfg cur tgt speed = tgt.
Proof. apply move_lands. Qed.

(** ... and then stays there, for ever *)
Theorem C11_stays (ZL : ZeroLaws A) p speed :
  fleb A (f0 A) (fmul A speed (c_rate cfg)) = true -> move A cfg p p speed = p.
Proof. apply move_stays. exact ZL. Qed.

(** one mobility update moves every node with a target by [move] from its current position,
    leaves nodes without a target where they are, and leaves targets and speeds alone *)
Theorem C11_update (h : sstate F PS) now :
  let '(h1, q) := tick A cfg h now in
  s_tgt h1 = s_tgt h /\ s_speed h1 = s_speed h /\
  (forall m, m < c_nnodes cfg -> m < length (s_pos h) -> pos_of A h1 m = new_pos A cfg h m).
Proof.
  pose proof (tick_spec A cfg h now) as Ht. destruct (tick A cfg h now) as [h1 q]. destruct Ht as (_ & T & S & P). auto.
Qed.

(** goto / goto-geo / set-speed never change a position: they only change the target or speed
    that the next update uses, which therefore continues from the current position *)
Theorem C11_commands_do_not_move (h : sstate F PS) now n a :
  match a with AGoto _ | AGotoGeo _ | ASetSpeed _ => True | _ => False end ->
  s_pos (fst (fst (do_action A cfg h now n a))) = s_pos h.
Proof. apply mobility_commands_do_not_move. Qed.

(** WHOLE RUNS, every sequence of commands at arbitrary times: the positions, targets and speeds of
    a run from build() -- any protocol, any bounds, cut anywhere -- are the replay [m_next] of its
    trace: a target changes only by an accepted goto / goto-geo of that node, a speed only by an
    accepted set-speed of that node, positions only when a mobility update executes; and one update
    ([C11_one_update]) moves every registered node by one [step1] from its OWN current position
    towards its CURRENT target at its CURRENT speed -- no jump, new commands from the next update. *)
Theorem C11_whole_run_is_replay {PS' : Type} (react : nat -> PS' -> F -> cb F -> PS' * list (action F)) (c : kcfg F) fuel ps0 :
  let '(s0, i0) := sim_start A cfg ps0 in
  let '(s', items, fin) := k_run A (sim_hooks A cfg react) c fuel s0 in
  after (m_next A cfg) (m0 cfg) (i0 ++ items) = mkM (s_pos (k_h s')) (s_tgt (k_h s')) (s_speed (k_h s')).
Proof. exact (whole_run_moves A cfg react c fuel ps0). Qed.

Theorem C11_any_driving_is_replay {PS' : Type} (react : nat -> PS' -> F -> cb F -> PS' * list (action F)) (c : kcfg F) ops ps0 :
  let '(s0, i0) := sim_start A cfg ps0 in
  let '(s', items) := sim_drive A cfg react c ops s0 in
  after (m_next A cfg) (m0 cfg) (i0 ++ items) = mkM (s_pos (k_h s')) (s_tgt (k_h s')) (s_speed (k_h s')).
Proof. exact (whole_drive_moves A cfg react c ops ps0). Qed.

Theorem C11_one_update (x : mstate) n :
  n < c_nnodes cfg -> c_nnodes cfg <= length (m_pos x) ->
  nth n (step_all A cfg x) (zero3 A) = step1 A cfg (nth n (m_pos x) (zero3 A)) (nth n (m_tgt x) None) (nth n (m_speed x) (f0 A)).
Proof. exact (step_all_nth A cfg x n). Qed.

End C11.

(** Over the reals, for a non-negative step smaller than the remaining distance, the new point
    is cur + lam (tgt - cur) with lam = step/remaining in [0,1): on the segment, advanced by
    exactly speed*interval, remaining distance reduced by exactly that. *)
Theorem C11_advance (cfg : scfg R) (cur tgt : vec3 R) (speed : R) :
  let mm := (speed * c_rate cfg)%R in
  let dd := dist3 cur tgt in
  (0 <= mm)%R -> (mm < dd)%R ->
  let p := move R_ops cfg cur tgt speed in
  let lam := (mm / dd)%R in
  (0 <= lam < 1)%R /\
  vx p = (vx cur + lam * (vx tgt - vx cur))%R /\ vy p = (vy cur + lam * (vy tgt - vy cur))%R /\
  vz p = (vz cur + lam * (vz tgt - vz cur))%R /\
  dist3 cur p = mm /\ dist3 p tgt = (dd - mm)%R.
Proof. apply move_advance. Qed.

Theorem C11_lands_R (cfg : scfg R) (cur tgt : vec3 R) (speed : R) :
  (dist3 cur tgt <= speed * c_rate cfg)%R -> move R_ops cfg cur tgt speed = tgt.
Proof. apply move_lands_R. Qed.

(** Non-vacuity: speed 5, interval 1, target at distance 5: the node lands on the first update and stays;
    the node without a target never moves. *)
Definition ex11 (n : nat) (ps : unit) (now : Z) (c : cb Z) : unit * list (action Z) :=
  match c, n with CbInit, O => (tt, [AGoto (3, 4, 0)%Z]) | _, _ => (tt, []) end.
Example C11_example :
  runx (cfgx [HMob; HTimer] 2 [(0, 0, 0)%Z; (1, 1, 1)%Z] 10%Z 0%Z 0%Z 1%Z 5%Z [] []) ex11 (Some 3%Z) None 50 =
  ([TCb 0 0%Z CbInit; TAct 0 (AGoto (3, 4, 0)%Z) Ok; TCb 1 0%Z CbInit;
    TCb 0 1%Z (CbTelemetry (3, 4, 0)%Z); TCb 1 1%Z (CbTelemetry (1, 1, 1)%Z);
    TCb 0 2%Z (CbTelemetry (3, 4, 0)%Z); TCb 1 2%Z (CbTelemetry (1, 1, 1)%Z);
    TCb 0 3%Z (CbTelemetry (3, 4, 0)%Z); TCb 1 3%Z (CbTelemetry (1, 1, 1)%Z);
    TCb 0 3%Z CbFinish; TCb 1 3%Z CbFinish], true, 0, [(3, 4, 0)%Z; (1, 1, 1)%Z]).
Proof. vm_compute. reflexivity. Qed.

Print Assumptions C11_lands.
Print Assumptions C11_stays.
Print Assumptions C11_update.
Print Assumptions C11_commands_do_not_move.
Print Assumptions C11_advance.
Print Assumptions C11_lands_R.
Print Assumptions C11_whole_run_is_replay.
Print Assumptions C11_any_driving_is_replay.
Print Assumptions C11_one_update.
