(** * Dispatcher: model of gradysim/protocol/plugin/dispatcher.py

    Per protocol instance, five call chains (newest handler first; the protocol's own method is
    the implicit last element).  Handlers are arbitrary: what a handler returns and which
    (un)registrations it performs while running is given by a function of the handler and of how
    often it has been called. *)
From Coq Require Import List Arith Bool.
Import ListNotations.

Inductive kind : Type := KInit | KTimer | KTelem | KPacket | KFinish.
Inductive dres : Type := RContinue | RInterrupt | RNone.
(** what a running handler may do: (un)register handlers, or deliver a callback itself (a nested dispatch) *)
Inductive reop : Type :=
| ReReg (inst : nat) (k : kind) (h : nat)
| ReUnreg (inst : nat) (k : kind) (h : nat)
| ReDisp (inst : nat) (k : kind).

Record wrapper : Type := mkW { w_init : list nat; w_timer : list nat; w_telem : list nat; w_packet : list nat; w_finish : list nat }.
Definition w_empty : wrapper := mkW [] [] [] [] [].

Definition chain (w : wrapper) (k : kind) : list nat :=
  match k with KInit => w_init w | KTimer => w_timer w | KTelem => w_telem w | KPacket => w_packet w | KFinish => w_finish w end.
Definition set_chain (w : wrapper) (k : kind) (l : list nat) : wrapper :=
  match k with
  | KInit => mkW l (w_timer w) (w_telem w) (w_packet w) (w_finish w)
  | KTimer => mkW (w_init w) l (w_telem w) (w_packet w) (w_finish w)
  | KTelem => mkW (w_init w) (w_timer w) l (w_packet w) (w_finish w)
  | KPacket => mkW (w_init w) (w_timer w) (w_telem w) l (w_finish w)
  | KFinish => mkW (w_init w) (w_timer w) (w_telem w) (w_packet w) l
  end.

(** INTERRUPT is honoured for timer / telemetry / packet only *)
Definition interruptible (k : kind) : bool :=
  match k with KInit | KFinish => false | _ => true end.

Record dstate : Type := mkD { d_wrappers : list (option wrapper); d_calls : list nat }.

Inductive dop : Type :=
| DCreate (inst : nat)
| DRegister (inst : nat) (k : kind) (h : nat)
| DUnregister (inst : nat) (k : kind) (h : nat)
| DDispatch (inst : nat) (k : kind).

Inductive ditem : Type :=
| DCall (inst : nat) (k : kind) (h : nat)       (* handler h invoked for instance inst *)
| DProto (inst : nat) (k : kind)                (* the protocol's own method invoked *)
| DValueError                                   (* unregister of a handler that is not registered *)
| DNoWrapper                                    (* operation on an instance without dispatcher *)
| DNest (inst : nat) (k : kind) (sub : list ditem)   (* a dispatch started from inside a running handler *)
| DOutOfFuel.                                   (* nesting deeper than the model's fuel: never compared *)

Fixpoint upd {X : Type} (n : nat) (x : X) (l : list X) : list X :=
  match l, n with
  | [], _ => []
  | _ :: r, 0 => x :: r
  | y :: r, S m => y :: upd m x r
  end.

(** list.remove: first occurrence; None = ValueError *)
Fixpoint remove_first (h : nat) (l : list nat) : option (list nat) :=
  match l with
  | [] => None
  | x :: r => if Nat.eqb x h then Some r
              else match remove_first h r with Some r' => Some (x :: r') | None => None end
  end.

Definition get_w (s : dstate) (inst : nat) : option wrapper :=
  match nth_error (d_wrappers s) inst with Some (Some w) => Some w | _ => None end.
Definition put_w (s : dstate) (inst : nat) (w : wrapper) : dstate :=
  mkD (upd inst (Some w) (d_wrappers s)) (d_calls s).

(** create_dispatcher: wraps once; asking again returns the same wrapper *)
Definition d_create (s : dstate) (inst : nat) : dstate :=
  match nth_error (d_wrappers s) inst with
  | Some None => put_w s inst w_empty
  | _ => s
  end.

Definition d_register (s : dstate) (inst : nat) (k : kind) (h : nat) : dstate * list ditem :=
  match get_w s inst with
  | Some w => (put_w s inst (set_chain w k (h :: chain w k)), [])
  | None => (s, [DNoWrapper])
  end.

Definition d_unregister (s : dstate) (inst : nat) (k : kind) (h : nat) : dstate * list ditem :=
  match get_w s inst with
  | Some w =>
      match remove_first h (chain w k) with
      | Some l => (put_w s inst (set_chain w k l), [])
      | None => (s, [DValueError])
      end
  | None => (s, [DNoWrapper])
  end.

Section Dispatch.
(** behaviour of handler [h] at its [n]-th invocation (0-based): result and re-entrant operations *)
Variable beh : nat -> nat -> dres * list reop.
(** how a dispatch started from inside a handler behaves; tied to the dispatcher itself by [dispatchF] below *)
Variable disp : dstate -> nat -> kind -> dstate * list ditem.

Definition apply_reop (s : dstate) (o : reop) : dstate * list ditem :=
  match o with
  | ReReg i k h => d_register s i k h
  | ReUnreg i k h => d_unregister s i k h
  | ReDisp i k => let '(s1, sub) := disp s i k in (s1, [DNest i k sub])
  end.

Fixpoint apply_reops (s : dstate) (ops : list reop) : dstate * list ditem :=
  match ops with
  | [] => (s, [])
  | o :: r => let '(s1, i1) := apply_reop s o in let '(s2, i2) := apply_reops s1 r in (s2, i1 ++ i2)
  end.

Definition bump (s : dstate) (h : nat) : dstate :=
  mkD (d_wrappers s) (upd h (S (nth h (d_calls s) 0)) (d_calls s)).

(** the wrapped method: runs the chain AS IT WAS when the dispatch started *)
Fixpoint run_chain (s : dstate) (snap : list nat) (inst : nat) (k : kind) : dstate * list ditem :=
  match snap with
  | [] => (s, [DProto inst k])
  | h :: r =>
      let '(res, ops) := beh h (nth h (d_calls s) 0) in
      let '(s1, i1) := apply_reops (bump s h) ops in
      let stop := interruptible k && match res with RInterrupt => true | _ => false end in
      if stop then (s1, DCall inst k h :: i1)
      else let '(s2, i2) := run_chain s1 r inst k in (s2, DCall inst k h :: i1 ++ i2)
  end.

Definition d_dispatch (s : dstate) (inst : nat) (k : kind) : dstate * list ditem :=
  match get_w s inst with
  | Some w => run_chain s (chain w k) inst k
  | None => (s, [DProto inst k])          (* not wrapped: the protocol's method itself *)
  end.

End Dispatch.

(** the dispatcher with nested dispatches: a handler's [ReDisp] runs the dispatcher itself, one level of fuel down *)
Fixpoint dispatchF (beh : nat -> nat -> dres * list reop) (fuel : nat) : dstate -> nat -> kind -> dstate * list ditem :=
  match fuel with
  | 0 => fun s _ _ => (s, [DOutOfFuel])
  | S f => d_dispatch beh (dispatchF beh f)
  end.

Section Run.
Variable beh : nat -> nat -> dres * list reop.
Variable fuel : nat.

Definition d_step (s : dstate) (o : dop) : dstate * list ditem :=
  match o with
  | DCreate i => (d_create s i, [])
  | DRegister i k h => d_register s i k h
  | DUnregister i k h => d_unregister s i k h
  | DDispatch i k => dispatchF beh fuel s i k
  end.

Fixpoint d_run (s : dstate) (ops : list dop) : dstate * list (list ditem) :=
  match ops with
  | [] => (s, [])
  | o :: r => let '(s1, it) := d_step s o in let '(s2, its) := d_run s1 r in (s2, it :: its)
  end.

End Run.


(** [n] protocol instances, none wrapped yet; [m] handlers never called *)
Definition d_init (n m : nat) : dstate := mkD (repeat None n) (repeat 0 m).
