(** * RandomTrip: model of gradysim/protocol/plugin/random_mobility.py

    [random.uniform(a, b)] is CPython's [a + (b - a) * random()]; the draws come from an oracle
    stream.  The plugin's telemetry hook is registered in / removed from the dispatcher chain; the
    model counts how many copies of it are registered. *)
From Coq Require Import List Arith Bool.
Import ListNotations.
From GS Require Import Num.

Section RandomTrip.
Context {F : Type} (A : ArithOps F).

Record tconfig : Type := mkTCfg { tc_x : F * F; tc_y : F * F; tc_z : F * F; tc_tol : F }.

Record tstate : Type := mkT {
  t_ongoing : bool;
  t_target : option (vec3 F);
  t_nreg : nat;                 (* copies of the telemetry hook currently in the chain *)
  t_cursor : nat                (* draws consumed *)
}.

Definition t_init : tstate := mkT false None 0 0.

Inductive top : Type := TInitiate | TFinish | TTelemetry (pos : vec3 F) | TTravel.

Variable cfg : tconfig.
Variable stream : list F.

Definition uniform (r : F * F) (u : F) : F := fadd A (fst r) (fmul A (fsub A (snd r) (fst r)) u).

Definition draw (s : tstate) (k : nat) : F := nth (t_cursor s + k) stream (f0 A).

(** travel_to_random_waypoint: three draws (x, y, z in this order), one goto, returns the waypoint *)
Definition waypoint (s : tstate) : vec3 F :=
  (uniform (tc_x cfg) (draw s 0), uniform (tc_y cfg) (draw s 1), uniform (tc_z cfg) (draw s 2)).

Definition travel (s : tstate) : tstate * vec3 F :=
  (mkT (t_ongoing s) (t_target s) (t_nreg s) (t_cursor s + 3), waypoint s).

Definition finish (s : tstate) : tstate :=
  if t_ongoing s then mkT false (t_target s) (pred (t_nreg s)) (t_cursor s) else s.

Definition within (s : tstate) (pos : vec3 F) : bool :=
  match t_target s with
  | Some tgt => fleb A (sqdist A pos tgt) (fmul A (tc_tol cfg) (tc_tol cfg))
  | None => false
  end.

(** result: new state and the goto commands issued, in order *)
Definition t_step (s : tstate) (o : top) : tstate * list (vec3 F) :=
  match o with
  | TInitiate =>
      let s0 := finish s in                     (* an ongoing trip is finished first *)
      let '(s1, wp) := travel s0 in
      (mkT true (Some wp) (S (t_nreg s1)) (t_cursor s1), [wp])
  | TFinish => (finish s, [])
  | TTelemetry pos =>
      if Nat.eqb (t_nreg s) 0 then (s, [])
      else if within s pos then
        let '(s1, wp) := travel s in (mkT (t_ongoing s1) (Some wp) (t_nreg s1) (t_cursor s1), [wp])
      else (s, [])
  | TTravel => let '(s1, wp) := travel s in (s1, [wp])
  end.

Fixpoint t_run (s : tstate) (ops : list top) : tstate * list (list (vec3 F) * (bool * option (vec3 F) * nat)) :=
  match ops with
  | [] => (s, [])
  | o :: r =>
      let '(s1, c) := t_step s o in
      let '(s2, out) := t_run s1 r in
      (s2, (c, (t_ongoing s1, t_target s1, t_cursor s1)) :: out)
  end.

End RandomTrip.

Arguments tstate : clear implicits.
Arguments top : clear implicits.
Arguments tconfig : clear implicits.
