"""
C06_r23 demo.

The same scenario is run twice in fresh subprocess-free fashion:

  reference : builder -> build() -> run
  observed  : builder -> build() -> the SAME builder is then prepared for a second experiment (its handlers are
              replaced by fresh ones and a second simulator is built) -> only now the FIRST simulator is run

`SimulationBuilder.build()` documents that "nodes and handlers added after this call will not affect the instance
returned by this method", and C06 says a run does not depend on other simulations having been built earlier in the
process. Both traces therefore have to be identical.

Exit code 0: traces identical. Exit code 1: they differ (printed).
"""
import logging
import sys

from gradysim.protocol.interface import IProtocol
from gradysim.protocol.messages.communication import BroadcastMessageCommand
from gradysim.protocol.messages.telemetry import Telemetry
from gradysim.simulator.extension.communication_controller import CommunicationController
from gradysim.simulator.handler.communication import CommunicationHandler, CommunicationMedium
from gradysim.simulator.handler.timer import TimerHandler
from gradysim.simulator.simulation import SimulationBuilder, SimulationConfiguration

TRACE = []


def record(protocol: IProtocol, kind: str, payload):
    TRACE.append((protocol.provider.get_id(), kind, protocol.provider.current_time(), payload))


class Whisperer(IProtocol):
    """Lowers its own transmission power when the run starts, then broadcasts once"""

    def initialize(self) -> None:
        record(self, "initialize", None)
        # Extensions are created once the protocol runs, as the library documents
        self.radio = CommunicationController(self)
        self.radio.set_transmission_range(5)
        self.provider.schedule_timer("speak", 1.0)

    def handle_timer(self, timer: str) -> None:
        record(self, "timer", timer)
        self.provider.send_communication_command(BroadcastMessageCommand("psst"))

    def handle_packet(self, message: str) -> None:
        record(self, "packet", message)

    def handle_telemetry(self, telemetry: Telemetry) -> None:
        pass

    def finish(self) -> None:
        record(self, "finish", None)


class Listener(IProtocol):
    def initialize(self) -> None:
        record(self, "initialize", None)

    def handle_timer(self, timer: str) -> None:
        record(self, "timer", timer)

    def handle_packet(self, message: str) -> None:
        record(self, "packet", message)

    def handle_telemetry(self, telemetry: Telemetry) -> None:
        pass

    def finish(self) -> None:
        record(self, "finish", None)


def new_builder() -> SimulationBuilder:
    builder = SimulationBuilder(SimulationConfiguration(duration=5, execution_logging=False))
    builder.add_handler(TimerHandler())
    builder.add_handler(CommunicationHandler(CommunicationMedium(transmission_range=60)))
    builder.add_node(Whisperer, (0, 0, 0))
    builder.add_node(Listener, (10, 0, 0))  # outside the whisperer's lowered range of 5 m
    return builder


def run(simulator) -> list:
    TRACE.clear()
    simulator.start_simulation()
    return list(TRACE)


def main() -> int:
    logging.disable(logging.CRITICAL)

    # Reference: the scenario alone
    reference = run(new_builder().build())

    # Same scenario, but the builder is re-used for a second experiment before the first simulator is run. Nothing is
    # shared between the two simulators: the second one gets handler objects of its own.
    builder = new_builder()
    first = builder.build()
    builder.add_handler(TimerHandler())
    builder.add_handler(CommunicationHandler(CommunicationMedium(transmission_range=60)))
    second = builder.build()
    observed = run(first)
    observed_second = run(second)

    ok = True
    if observed != reference:
        ok = False
        print("C06 violated: the first simulator's callbacks depend on a second simulator having been built "
              "from the same builder")
        print("  reference :", reference)
        print("  observed  :", observed)
    if observed_second != reference:
        ok = False
        print("C06 violated: the second simulator's callbacks differ from the scenario run alone")
        print("  reference :", reference)
        print("  observed  :", observed_second)

    if ok:
        print("OK: identical callback sequences", reference)
        return 0
    return 1


if __name__ == "__main__":
    sys.exit(main())
