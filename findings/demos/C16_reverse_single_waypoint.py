"""C16: REVERSE loop with a one-waypoint mission must keep a valid waypoint index."""
import sys
from gradysim.protocol.interface import IProtocol
from gradysim.protocol.messages.telemetry import Telemetry
from gradysim.protocol.plugin.mission_mobility import MissionMobilityPlugin, MissionMobilityConfiguration, LoopMission
class Prov:
    def __init__(self): self.cmds = []
    def send_mobility_command(self, c): self.cmds.append(c)
class P(IProtocol):
    def initialize(self): pass
    def handle_timer(self, t): pass
    def handle_packet(self, m): pass
    def handle_telemetry(self, t): pass
    def finish(self): pass
p = P(); p.provider = Prov()
m = MissionMobilityPlugin(p, MissionMobilityConfiguration(loop_mission=LoopMission.REVERSE))
m.start_mission([(1.0, 2.0, 3.0)])
seen = []
for _ in range(4):
    p.handle_telemetry(Telemetry((1.0, 2.0, 3.0)))
    seen.append((m.current_waypoint, m.is_reversed))
print(seen)
sys.exit(0 if all(w == 0 for w, _ in seen) else 1)
