"""C07: cancel_timer(name) from inside handle_timer(name) must work (and cancel
other pending timers of that name)."""
import sys
from gradysim.protocol.interface import IProtocol
from gradysim.simulator.handler.timer import TimerHandler
from gradysim.simulator.simulation import SimulationBuilder, SimulationConfiguration
log = []
class P(IProtocol):
    def initialize(self):
        self.provider.schedule_timer("a", 1.0); self.provider.schedule_timer("a", 2.0)
        self.provider.schedule_timer("b", 3.0)
    def handle_timer(self, timer):
        log.append((timer, self.provider.current_time()))
        if timer == "a": self.provider.cancel_timer("a")
    def handle_packet(self, m): pass
    def handle_telemetry(self, t): pass
    def finish(self): pass
b = SimulationBuilder(SimulationConfiguration(execution_logging=False))
b.add_handler(TimerHandler()); b.add_node(P, (0, 0, 0))
s = b.build()
try:
    s.start_simulation()
except Exception as e:
    print("raised", type(e).__name__, e); sys.exit(1)
print(log)
sys.exit(0 if log == [("a", 1.0), ("b", 3.0)] else 1)
