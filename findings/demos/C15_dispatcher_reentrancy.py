"""C15: (un)registration from inside a running handler must not skip or repeat handlers;
initialize/finish always run the whole chain."""
import sys
from gradysim.protocol.interface import IProtocol
from gradysim.protocol.plugin.dispatcher import create_dispatcher, DispatchReturn
class P(IProtocol):
    def __init__(self): self.log = []
    def initialize(self): self.log.append("proto")
    def handle_timer(self, t): self.log.append("proto")
    def handle_packet(self, m): self.log.append("proto")
    def handle_telemetry(self, t): self.log.append("proto")
    def finish(self): self.log.append("proto")
ok = True
# 1. self-unregistering handler must not make the next (older) handler be skipped
p = P(); d = create_dispatcher(p)
def h1(i, t): p.log.append("h1"); return DispatchReturn.CONTINUE
def h2(i, t): p.log.append("h2"); d.unregister_handle_timer(h2); return DispatchReturn.CONTINUE
def h3(i, t): p.log.append("h3"); return DispatchReturn.CONTINUE
d.register_handle_timer(h1); d.register_handle_timer(h2); d.register_handle_timer(h3)
p.handle_timer("x"); print(1, p.log); ok &= p.log == ["h3", "h2", "h1", "proto"]
p.log.clear(); p.handle_timer("x"); print(1, p.log); ok &= p.log == ["h3", "h1", "proto"]
# 2. handler registering another one must not run twice
p = P(); d = create_dispatcher(p)
def n(i, t): p.log.append("n"); return DispatchReturn.CONTINUE
def r(i, t):
    p.log.append("r")
    if len(p.log) > 50: raise RuntimeError("runaway dispatch")
    d.register_handle_timer(n); return DispatchReturn.CONTINUE
d.register_handle_timer(r)
try:
    p.handle_timer("x")
except RuntimeError as e:
    print(2, e)
print(2, p.log[:8]); ok &= p.log == ["r", "proto"]
# 3. INTERRUPT is not honoured for initialize / finish
p = P(); d = create_dispatcher(p)
d.register_initialize(lambda i: DispatchReturn.INTERRUPT); d.register_finish(lambda i: DispatchReturn.INTERRUPT)
p.initialize(); p.finish(); print(3, p.log); ok &= p.log == ["proto", "proto"]
sys.exit(0 if ok else 1)
