"""C20: the distance between two converted points must match their great-circle distance
(fraction of a percent) in every quadrant, away from the equator too."""
import sys, math
from gradysim.protocol.position import geo_to_cartesian
def gc(a, b):
    la1, lo1, la2, lo2 = map(math.radians, (a[0], a[1], b[0], b[1]))
    h = math.sin((la2 - la1) / 2) ** 2 + math.cos(la1) * math.cos(la2) * math.sin((lo2 - lo1) / 2) ** 2
    return 2 * 6371000 * math.asin(math.sqrt(h))
ref = (10.0, 20.0, 0.0)
ok = True
pts = [(10.01, 20.03, 0.0), (10.01, 19.97, 0.0), (9.99, 19.97, 0.0), (9.99, 20.03, 0.0), (10.02, 20.0, 0.0), (10.0, 20.02, 0.0)]
for i, a in enumerate(pts):
    for b in pts[i + 1:]:
        ca, cb = geo_to_cartesian(ref, a), geo_to_cartesian(ref, b)
        dc = math.dist(ca, cb); dg = gc(a, b)
        rel = abs(dc - dg) / dg
        if rel > 0.005:
            ok = False; print("MISMATCH", a, b, "converted", round(dc, 1), "great-circle", round(dg, 1))
print("ok" if ok else "failed"); sys.exit(0 if ok else 1)
