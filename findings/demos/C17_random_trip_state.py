"""C17: status queries / finish work in every state; after finish no more gotos, however often started."""
import sys, random
from gradysim.protocol.interface import IProtocol
from gradysim.protocol.messages.telemetry import Telemetry
from gradysim.protocol.plugin.random_mobility import RandomMobilityPlugin, RandomMobilityConfig
class Prov:
    def __init__(self): self.cmds = []
    def send_mobility_command(self, c): self.cmds.append(c)
class P(IProtocol):
    def initialize(self): pass
    def handle_timer(self, t): pass
    def handle_packet(self, m): pass
    def handle_telemetry(self, t): pass
    def finish(self): pass
ok = True
p = P(); p.provider = Prov(); r = RandomMobilityPlugin(p, RandomMobilityConfig())
for name, f in [("trip_ongoing", lambda: r.trip_ongoing), ("current_target", lambda: r.current_target),
                ("finish", r.finish_random_trip)]:
    try:
        print(name, "->", f())
    except Exception as e:
        print(name, "raised", type(e).__name__); ok = False
random.seed(1)
p = P(); p.provider = Prov(); r = RandomMobilityPlugin(p, RandomMobilityConfig())
r.initiate_random_trip(); r.initiate_random_trip()
n0 = len(p.provider.cmds)
p.handle_telemetry(Telemetry(r.current_target)); n1 = len(p.provider.cmds)
print("draws on one arrival during a doubly-initiated trip:", n1 - n0); ok &= (n1 - n0 == 1)
r.finish_random_trip()
tgt = r.current_target
for _ in range(3):
    p.handle_telemetry(Telemetry((p.provider.cmds[-1].param_1, p.provider.cmds[-1].param_2, p.provider.cmds[-1].param_3)))
n2 = len(p.provider.cmds)
print("gotos after finish:", n2 - n1); ok &= (n2 == n1)
sys.exit(0 if ok else 1)
