"""C04: duration=10, a timer re-armed every second must not fire at t=11."""
import sys, logging
from gradysim.protocol.interface import IProtocol
from gradysim.simulator.handler.timer import TimerHandler
from gradysim.simulator.simulation import SimulationBuilder, SimulationConfiguration
seen = []
class P(IProtocol):
    def initialize(self): self.provider.schedule_timer("t", self.provider.current_time() + 1)
    def handle_timer(self, timer):
        seen.append(self.provider.current_time())
        self.provider.schedule_timer("t", self.provider.current_time() + 1)
    def handle_packet(self, m): pass
    def handle_telemetry(self, t): pass
    def finish(self): seen.append(("finish", self.provider.current_time()))
b = SimulationBuilder(SimulationConfiguration(duration=10, execution_logging=False))
b.add_handler(TimerHandler()); b.add_node(P, (0, 0, 0))
s = b.build(); s.start_simulation()
print(seen)
times = [t for t in seen if not isinstance(t, tuple)]
sys.exit(0 if times == [float(i) for i in range(1, 11)] and seen[-1][1] <= 10 else 1)
