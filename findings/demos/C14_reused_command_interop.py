"""C14: a protocol that keeps ONE command object and re-fills it for every request (the python simulator takes what it
needs at hand-over, so this is fine there) gets, under the interop wrapper, a returned list that names the LAST request
several times: the provider stored the object itself, not what it said when it was handed over.
Exit 0 when each returned consequence says what was issued, 1 otherwise."""
import sys

from gradysim.encapsulator.interop import InteropEncapsulator
from gradysim.protocol.interface import IProtocol
from gradysim.protocol.messages.communication import SendMessageCommand


class Courier(IProtocol):
    def initialize(self):
        cmd = SendMessageCommand("", 0)
        for text, dst in (("first", 1), ("second", 2), ("third", 3)):
            cmd.message, cmd.destination = text, dst
            self.provider.send_communication_command(cmd)

    def handle_timer(self, timer): pass
    def handle_packet(self, message): pass
    def handle_telemetry(self, telemetry): pass
    def finish(self): pass


enc = InteropEncapsulator()
enc.encapsulate(Courier)
enc.set_id(0)
enc.set_timestamp(0.0)
got = [(c.message, c.destination) for _, c in enc.initialize()]
want = [("first", 1), ("second", 2), ("third", 3)]
print("issued  ", want)
print("returned", got)
sys.exit(0 if got == want else 1)
