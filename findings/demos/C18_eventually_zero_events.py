"""C18: an eventually-assertion whose predicate was never true after any executed event must
fail at the end of the run -- also when the run executed no event at all."""
import sys
from gradysim.protocol.interface import IProtocol
from gradysim.simulator.handler.assertion import (AssertionHandler, FailedAssertionException,
    assert_eventually_true_for_protocol, assert_eventually_true_for_simulation)
from gradysim.simulator.simulation import SimulationBuilder, SimulationConfiguration
class P(IProtocol):
    def initialize(self): pass
    def handle_timer(self, t): pass
    def handle_packet(self, m): pass
    def handle_telemetry(self, t): pass
    def finish(self): pass
def run(assertion):
    b = SimulationBuilder(SimulationConfiguration(execution_logging=False))
    b.add_handler(AssertionHandler([assertion])); b.add_node(P, (0, 0, 0))
    try:
        b.build().start_simulation(); return "passed"
    except FailedAssertionException:
        return "failed"
@assert_eventually_true_for_protocol(P, "never")
def a1(node): return False
@assert_eventually_true_for_simulation("never")
def a2(nodes): return False
r = (run(a1), run(a2)); print(r)
sys.exit(0 if r == ("failed", "failed") else 1)
