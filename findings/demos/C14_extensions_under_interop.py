"""C14: simulator-only extensions must turn into no-ops (not fail) under the interop wrapper."""
import sys, warnings
warnings.simplefilter("ignore")
from gradysim.encapsulator.interop import InteropEncapsulator
from gradysim.protocol.interface import IProtocol
from gradysim.simulator.extension.camera import CameraHardware, CameraConfiguration
from gradysim.simulator.extension.communication_controller import CommunicationController
from gradysim.simulator.extension.visualization_controller import VisualizationController
res = []
class P(IProtocol):
    def initialize(self):
        for name, f in [
            ("comm", lambda: CommunicationController(self).set_transmission_range(5)),
            ("camera", lambda: CameraHardware(self, CameraConfiguration(10, 30, 0, 0)).take_picture()),
            ("visual", lambda: (VisualizationController(self).paint_node(0, (1, 0, 0)),
                                VisualizationController(self).paint_environment((1, 0, 0)),
                                VisualizationController(self).resize_nodes(2),
                                VisualizationController(self).show_node_id(0, True)))]:
            try:
                f(); res.append((name, "ok"))
            except Exception as e:
                res.append((name, type(e).__name__))
    def handle_timer(self, t): pass
    def handle_packet(self, m): pass
    def handle_telemetry(self, t): pass
    def finish(self): pass
e = InteropEncapsulator(); e.encapsulate(P); e.initialize()
print(res)
sys.exit(0 if all(r == "ok" for _, r in res) else 1)
