"""C18 / C06: SimulationBuilder.build() called twice (e.g. "build the scenario again"): the AssertionHandler object is
shared by both simulators and keeps the nodes of the first, discarded one.  An always-assertion over the simulation's
nodes then fails in the second simulator although its predicate holds for every node of that simulation.
Exit 0 = behaves correctly, 1 = defect present."""
import sys
from gradysim.protocol.interface import IProtocol
from gradysim.simulator.handler.assertion import AssertionHandler, assert_always_true_for_simulation, FailedAssertionException
from gradysim.simulator.handler.timer import TimerHandler
from gradysim.simulator.simulation import SimulationBuilder, SimulationConfiguration


class P(IProtocol):
    def initialize(self):
        self.ready = True
        self.provider.schedule_timer("t", 1.0)

    def handle_timer(self, timer): pass
    def handle_packet(self, message): pass
    def handle_telemetry(self, telemetry): pass
    def finish(self): pass


@assert_always_true_for_simulation("all-ready")
def all_ready(nodes):
    return all(getattr(n.protocol_encapsulator.protocol, "ready", False) for n in nodes)


b = SimulationBuilder(SimulationConfiguration(execution_logging=False))
b.add_handler(TimerHandler())
b.add_handler(AssertionHandler([all_ready]))
b.add_node(P, (0.0, 0.0, 0.0))
b.build()                 # built once and dropped
sim = b.build()           # "build it again": this is the simulation that runs
try:
    sim.start_simulation()
except FailedAssertionException as e:
    print("always-assertion failed although every node of the running simulation satisfies it:", e)
    sys.exit(1)
print("ok")
