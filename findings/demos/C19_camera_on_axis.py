"""C19: take_picture never fails; a node exactly on the camera axis is reported."""
import sys, math
from gradysim.protocol.interface import IProtocol
from gradysim.simulator.extension.camera import CameraHardware, CameraConfiguration
from gradysim.simulator.handler.mobility import MobilityHandler
from gradysim.simulator.simulation import SimulationBuilder, SimulationConfiguration
el, rot, d = 3.7472595316717205, 6.431227498006318, 2.171693923194768
e, r = math.radians(el), math.radians(rot)
v = (math.sin(e) * math.cos(r), math.sin(e) * math.sin(r), math.cos(e))
class P(IProtocol):
    def initialize(self): pass
    def handle_timer(self, t): pass
    def handle_packet(self, m): pass
    def handle_telemetry(self, t): pass
    def finish(self): pass
b = SimulationBuilder(SimulationConfiguration(execution_logging=False))
b.add_handler(MobilityHandler())
b.add_node(P, (0.0, 0.0, 0.0)); b.add_node(P, (v[0] * d, v[1] * d, v[2] * d))
s = b.build()
cam = CameraHardware(s.get_node(0).protocol_encapsulator.protocol, CameraConfiguration(10.0, 20.0, el, rot))
try:
    pic = cam.take_picture()
except Exception as ex:
    print("raised", type(ex).__name__, ex); sys.exit(1)
print(pic); sys.exit(0 if len(pic) == 1 else 1)
