"""C05 (and the docstring of SimulationBuilder.build: "Nodes and handlers added after this call will not affect the instance
returned by this method"): a simulator shared its handler table with the builder that made it, so a handler registered with
the builder AFTER build() -- to prepare another simulation -- took over the lifecycle hooks of the simulator built before.
Exit 1 when the defect is present, 0 otherwise.  Run with PYTHONPATH=<repo>."""
import sys
from gradysim.protocol.interface import IProtocol
from gradysim.simulator.handler.interface import INodeHandler
from gradysim.simulator.handler.timer import TimerHandler
from gradysim.simulator.simulation import SimulationBuilder, SimulationConfiguration

log = []


class Recorder(INodeHandler):
    def __init__(self, name):
        self.name = name

    @staticmethod
    def get_label():
        return "recorder"

    def inject(self, event_loop):
        pass

    def register_node(self, node):
        pass

    def initialize(self):
        log.append((self.name, "initialize"))

    def after_simulation_step(self, iteration, timestamp):
        log.append((self.name, "after", iteration, timestamp))

    def finalize(self):
        log.append((self.name, "finalize"))


class P(IProtocol):
    def initialize(self):
        self.provider.schedule_timer("a", 1.0)

    def handle_timer(self, timer):
        pass

    def handle_packet(self, message):
        pass

    def handle_telemetry(self, telemetry):
        pass

    def finish(self):
        pass


builder = SimulationBuilder(SimulationConfiguration(execution_logging=False))
builder.add_handler(TimerHandler())
builder.add_handler(Recorder("first"))
builder.add_node(P, (0, 0, 0))
first = builder.build()
# the builder goes on to prepare another simulation with handlers of its own
builder.add_handler(TimerHandler())
builder.add_handler(Recorder("second"))
second = builder.build()
first.start_simulation()
want = [("first", "initialize"), ("first", "after", 0, 1.0), ("first", "finalize")]
if log != want:
    print("the first simulator's handler hooks went to:", log)
    sys.exit(1)
print("ok:", log)
