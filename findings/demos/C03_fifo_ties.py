"""C03: six events scheduled at the same instant must pop in scheduling order."""
import sys
from gradysim.simulator.event import EventLoop
el = EventLoop()
for i in range(6):
    el.schedule_event(5.0, (lambda i=i: i))
order = [el.pop_event().callback() for _ in range(6)]
print("pop order:", order)
sys.exit(0 if order == list(range(6)) else 1)
