"""C05: once step_simulation has returned False, further stepping executes nothing
(even if finish() scheduled something)."""
import sys
from gradysim.protocol.interface import IProtocol
from gradysim.simulator.handler.timer import TimerHandler
from gradysim.simulator.simulation import SimulationBuilder, SimulationConfiguration
log = []
class P(IProtocol):
    def initialize(self): self.provider.schedule_timer("a", 1.0)
    def handle_timer(self, timer): log.append(("timer", timer))
    def handle_packet(self, m): pass
    def handle_telemetry(self, t): pass
    def finish(self):
        log.append("finish")
        self.provider.schedule_timer("late", self.provider.current_time() + 1)
b = SimulationBuilder(SimulationConfiguration(execution_logging=False))
b.add_handler(TimerHandler()); b.add_node(P, (0, 0, 0))
s = b.build()
while s.step_simulation(): pass
before = list(log)
r = [s.step_simulation() for _ in range(3)]
print(before, log, r)
sys.exit(0 if log == before and r == [False] * 3 else 1)
