"""C06 / C11: a scenario is run, then built again from the same builder (same MobilityHandler object) and run
again.  register_node() resets the node's speed but not its target, so in the second simulation the node flies
towards the target of the first one although nobody asked it to move.
Exit 0 = behaves correctly, 1 = defect present."""
import sys
from gradysim.protocol.interface import IProtocol
from gradysim.protocol.messages.mobility import GotoCoordsMobilityCommand
from gradysim.simulator.handler.mobility import MobilityHandler, MobilityConfiguration
from gradysim.simulator.simulation import SimulationBuilder, SimulationConfiguration


class P(IProtocol):
    fly = True
    seen = []

    def initialize(self):
        if P.fly:
            self.provider.send_mobility_command(GotoCoordsMobilityCommand(10.0, 0.0, 0.0))

    def handle_timer(self, timer): pass
    def handle_packet(self, message): pass

    def handle_telemetry(self, telemetry):
        P.seen.append(tuple(telemetry.current_position))

    def finish(self): pass


b = SimulationBuilder(SimulationConfiguration(duration=3.0, execution_logging=False))
b.add_handler(MobilityHandler(MobilityConfiguration(update_rate=0.5, default_speed=2.0)))
b.add_node(P, (0.0, 0.0, 0.0))
b.build().start_simulation()          # first run: the node is sent to (10, 0, 0)
P.fly, P.seen = False, []
b.build().start_simulation()          # second run: nobody sends it anywhere
moved = [p for p in P.seen if p != (0.0, 0.0, 0.0)]
if moved:
    print("the node has no target in the second simulation but moved:", moved[:3])
    sys.exit(1)
print("ok")
