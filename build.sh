#!/bin/sh
# Builds the whole framework from files on disk: full .vo build of the Coq development
# (never -vos), extraction, OCaml driver.
set -e
cd "$(dirname "$0")"
exec /venv/bin/python -c "
import sys; sys.path.insert(0, 'harness')
import engine
ok, log = engine.ensure_built(clean=False)
print(log if not ok else 'framework built')
sys.exit(0 if ok else 1)
"
